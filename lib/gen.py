"""Seeded, boundary-biased generators. Everything produces reference-side values (str bits, ints, RC trees)."""
from . import refcell as rc


def rand_bits(rng, n):
    return bin(rng.getrandbits(n))[2:].zfill(n) if n else ''


def bit_patterns(rng, n):
    """the hostile contents for a bit string of length n"""
    if n == 0:
        return ['']
    out = ['0' * n, '1' * n, ('01' * n)[:n], ('10' * n)[:n], rand_bits(rng, n)]
    # looks like a completion tag at the end: ...10000
    z = min(n - 1, (8 - n % 8) % 8 or 3)
    out.append((rand_bits(rng, n) + '1' + '0' * z)[-n:])
    r = rand_bits(rng, n)
    out.append(r[:-1] + '0')
    out.append(r[:-1] + '1')
    return out


def some_bits(rng, maxlen=1023):
    """one bit string, lengths biased towards byte boundaries and the extremes"""
    k = rng.random()
    if k < 0.15:
        n = rng.choice([0, 1, 7, 8, 9, 15, 16, 17, 1015, 1016, 1017, 1022, 1023])
    elif k < 0.5:
        n = rng.randrange(0, 64)
    else:
        n = rng.randrange(0, 1024)
    n = min(n, maxlen)
    return rng.choice(bit_patterns(rng, n))


def int_boundaries(w, signed):
    """in-range boundary values for a width-w field"""
    if w == 0:
        return [0]
    if signed:
        lo, hi = -(1 << (w - 1)), (1 << (w - 1)) - 1
    else:
        lo, hi = 0, (1 << w) - 1
    vals = {lo, hi, 0, min(hi, 1), max(lo, -1) if signed else 0, lo + 1 if lo + 1 <= hi else lo, hi - 1 if hi - 1 >= lo else hi}
    for k in range(8, w + 1, 8):
        for v in ((1 << k) - 1, 1 << k, (1 << (k - 1)) - 1, 1 << (k - 1)):
            for s in ((1, -1) if signed else (1,)):
                if lo <= s * v <= hi:
                    vals.add(s * v)
    return sorted(vals)


def some_int(rng, w, signed):
    if w == 0:
        return 0
    if rng.random() < 0.4:
        return rng.choice(int_boundaries(w, signed))
    if signed:
        return rng.randrange(-(1 << (w - 1)), 1 << (w - 1))
    return rng.getrandbits(w)


# ------------------------------------------------------------------------------------------- DAGs

def rand_dag(rng, ncells, max_bits=80, fanin=0.5, pool_leafs=3):
    """random ordinary DAG with sharing; returns root RC.  Built bottom-up: each new cell picks 0..4 children
    among earlier cells (with prob `fanin` re-using an already referenced one), respecting depth <= 1023."""
    cells = []
    for i in range(ncells):
        k = 0 if i < pool_leafs else rng.choice([0, 1, 1, 2, 2, 3, 4])
        refs = []
        for _ in range(min(k, len(cells))):
            if rng.random() < fanin:
                refs.append(cells[rng.randrange(len(cells))])
            else:
                refs.append(cells[-1 - rng.randrange(min(3, len(cells)))])
        bits = (some_bits(rng, max_bits) + rc.u(i, 20))[-1023:]  # make cells distinct
        try:
            c = rc.RC(bits, refs)
        except rc.RefError:
            c = rc.RC(bits, ())
        cells.append(c)
    # root referencing up to four of the latest cells so that most of the pool is reachable
    top = rc.RC(rc.u(ncells, 24), cells[-4:][::-1])
    return top


def chain(depth, bits_fn=lambda i: rc.u(i, 11), pos=0, width=1):
    """chain of given depth (root depth == depth). `width`: number of refs per level (deep child at position pos,
    the other positions hold a shared leaf)"""
    leaf = rc.RC('1')
    c = rc.RC(bits_fn(0))
    for i in range(1, depth + 1):
        refs = [leaf] * width
        refs[pos] = c
        c = rc.RC(bits_fn(i), refs)
    return c


def ladder(levels, k=2):
    """each level references the next level k times: linear size, k**levels paths"""
    c = rc.RC('1')
    for i in range(levels):
        c = rc.RC(rc.u(i, 12), (c,) * k)
    return c


def diamond(levels):
    """two distinct cells per level, each referencing both cells of the next level"""
    a, b = rc.RC('0'), rc.RC('1')
    for i in range(levels):
        a, b = rc.RC('0' + rc.u(i, 12), (a, b)), rc.RC('1' + rc.u(i, 12), (b, a))
    return rc.RC('', (a, b))


def kary(k, depth, rng=None, distinct=True):
    ctr = [0]

    def mk(d):
        ctr[0] += 1
        bits = rc.u(ctr[0], 24) if distinct else '1'
        return rc.RC(bits, [mk(d - 1) for _ in range(k)] if d else ())
    return mk(depth)


def wide(ncells, leaf_bits=lambda i: rc.u(i, 24)):
    """exactly `ncells` distinct cells: a 4-ary tree of distinct leaves filled to the requested count"""
    assert ncells >= 1
    # turn the list into a tree without adding cells: cell i adopts cells 4i+1..4i+4 (heap layout)
    built = [None] * ncells
    for i in reversed(range(ncells)):
        kids = [built[j] for j in range(4 * i + 1, min(4 * i + 5, ncells))]
        built[i] = rc.RC(leaf_bits(i), kids)
    return built[0]


# -------------------------------------------------------------------------- exotic trees (C02/C11)

def rand_hash(rng):
    return rng.getrandbits(256).to_bytes(32, 'big')


def exotic_tree(rng, budget=12, max_level=3, depth=0):
    for _ in range(30):
        try:
            return _exotic_tree(rng, budget, max_level, depth)
        except rc.RefError:
            continue
    return rc.RC(some_bits(rng, 40))


def _exotic_tree(rng, budget=12, max_level=3, depth=0):
    """random spec-valid tree whose root has level <= max_level.  Pruned branches replace *generated* subtrees,
    so their stored hashes are genuine; raw pruned branches with random hashes are used as well."""
    if budget <= 1 or depth > 8:
        k = rng.random()
        if k < 0.2:
            return rc.make_library(rand_hash(rng))
        if k < 0.55 and max_level >= 1:
            return raw_pruned(rng, max_level)
        return rc.RC(some_bits(rng, 40))
    k = rng.random()
    if k < 0.15 and max_level + 1 <= 3:
        ch = exotic_tree(rng, budget - 1, max_level + 1, depth + 1)
        return rc.make_merkle_proof(ch)
    if k < 0.25 and max_level + 1 <= 3:
        a = exotic_tree(rng, budget // 2, max_level + 1, depth + 1)
        b = exotic_tree(rng, budget // 2, max_level + 1, depth + 1)
        return rc.make_merkle_update(a, b)
    if k < 0.4 and max_level >= 1:
        # prune a generated subtree at an admissible level
        lvl = rng.randint(1, max_level)
        sub = exotic_tree(rng, budget - 1, lvl - 1, depth + 1)
        return rc.make_pruned(sub, lvl)
    n = rng.randint(1, 4)
    kids = []
    for i in range(n):
        if kids and rng.random() < 0.2:
            kids.append(rng.choice(kids))
        else:
            kids.append(exotic_tree(rng, max(1, (budget - 1) // n), max_level, depth + 1))
    try:
        return rc.RC(some_bits(rng, 60), kids)
    except rc.RefError:
        return rc.RC(some_bits(rng, 60))


def raw_pruned(rng, max_level):
    """pruned branch with random stored hashes: any mask whose level <= max_level"""
    m = rng.randint(1, (1 << max_level) - 1)
    n = rc.popcount(m)
    bits = rc.u(rc.PRUNED, 8) + rc.u(m, 8) + ''.join(rc.bytes_to_bits(rand_hash(rng)) for _ in range(n)) + \
        ''.join(rc.u(rng.choice([0, 1, 5, 300, rng.randrange(1023)]), 16) for _ in range(n))
    return rc.RC(bits, (), rc.PRUNED)


def all_cells(root):
    out, seen, stack = [], set(), [root]
    while stack:
        c = stack.pop()
        if c.hash in seen:
            continue
        seen.add(c.hash)
        out.append(c)
        stack.extend(c.refs)
    return out


_MAGIC = {}


def magic_constants(root=None, limit=2500):
    """byte strings of 2..8 bytes that occur as literals in the library's own source (bytes literals, 8-hex-digit strings, integers of 17..64 bits in both byte
    orders): tags, magic prefixes, table entries.  A value class for inputs - code that special-cases one of its own constants is wrong exactly there."""
    import ast
    import os
    from lib import mon
    root = root or os.path.join(mon.REPO, 'pytoniq_core')
    if root in _MAGIC:
        return _MAGIC[root]
    out = {}
    for dp, _, fs in sorted(os.walk(root)):
        for f in sorted(fs):
            if not f.endswith('.py') or f == 'keys.py':
                continue
            try:
                tree = ast.parse(open(os.path.join(dp, f), encoding='utf-8').read())
            except (SyntaxError, OSError, UnicodeDecodeError):
                continue
            for node in ast.walk(tree):
                if not isinstance(node, ast.Constant):
                    continue
                v = node.value
                if isinstance(v, bytes) and 2 <= len(v) <= 8:
                    out.setdefault(v, f)
                elif isinstance(v, str) and len(v) in (8, 16) and all(c in '0123456789abcdefABCDEF' for c in v):
                    out.setdefault(bytes.fromhex(v), f)
                elif isinstance(v, int) and not isinstance(v, bool) and (1 << 16) <= v < (1 << 64):
                    n = 4 if v < (1 << 32) else 8
                    out.setdefault(v.to_bytes(n, 'big'), f)
                    out.setdefault(v.to_bytes(n, 'little'), f)
    res = sorted(out)[:limit]
    _MAGIC[root] = res
    return res

"""Monitor layer shared by all checks: run context, counters, three-valued verdicts,
violation/replay/evidence writers, known-findings file, method wrappers and the logical step
counter (sys.monitoring).  Pure stdlib; runs under /venv/bin/python (3.12)."""
import collections
import hashlib
import json
import os
import sys
import time
import traceback

VERIF_DIR = os.path.dirname(os.path.dirname(os.path.abspath(__file__)))
OUT_DIR = VERIF_DIR if not os.environ.get('VERIF_NO_EVIDENCE') else os.path.join(VERIF_DIR, '.work', 'noevidence-%d' % os.getpid())
REPO = os.path.realpath(os.environ.get('VERIF_REPO', '/repo'))


def bind_repo():
    """Put the repository under test first on sys.path and assert that is what gets imported."""
    if sys.path[0] != REPO:
        sys.path.insert(0, REPO)
    sys.dont_write_bytecode = True
    import pytoniq_core
    f = os.path.realpath(pytoniq_core.__file__)
    if not f.startswith(REPO + os.sep):
        print(f'INCONCLUSIVE reason=wrong-import-root imported={f} wanted={REPO}')
        sys.exit(2)
    return pytoniq_core


class Budget(BaseException):
    """Raised out of a sys.monitoring callback when a step budget is exhausted (source-free failpoint)."""


class Watchdog(BaseException):
    pass


def fp(*parts) -> bytes:
    h = hashlib.blake2b(digest_size=8)
    for p in parts:
        if isinstance(p, (bytes, bytearray)):
            h.update(bytes(p))
        else:
            h.update(repr(p).encode())
        h.update(b'\x00')
    return h.digest()


def jsonable(x, depth=0):
    if depth > 12:
        return repr(x)[:200]
    if isinstance(x, (bytes, bytearray)):
        return {'hex': bytes(x).hex()} if len(x) <= 4096 else {'hex_prefix': bytes(x[:4096]).hex(), 'len': len(x)}
    if isinstance(x, (str, int, float, bool)) or x is None:
        if isinstance(x, int) and abs(x) > 2 ** 53:
            return {'int': str(x)}
        return x
    if isinstance(x, dict):
        return {str(k): jsonable(v, depth + 1) for k, v in list(x.items())[:200]}
    if isinstance(x, (list, tuple, set, frozenset)):
        return [jsonable(v, depth + 1) for v in list(x)[:400]]
    return repr(x)[:400]


def unjson(x):
    """Inverse of jsonable for the forms a replay file needs (hex bytes, big ints)."""
    if isinstance(x, dict):
        if set(x) == {'hex'}:
            return bytes.fromhex(x['hex'])
        if set(x) == {'int'}:
            return int(x['int'])
        return {k: unjson(v) for k, v in x.items()}
    if isinstance(x, list):
        return [unjson(v) for v in x]
    return x


def load_known(pid):
    """known_findings.txt: 'finding: property=Cxx key=<mechanism-key> text...' / 'fixed: ...' (suppresses nothing)."""
    res = {}
    p = os.path.join(VERIF_DIR, 'known_findings.txt')
    if not os.path.exists(p):
        return res
    for line in open(p):
        line = line.strip()
        if not line.startswith('finding:'):
            continue
        toks = line[len('finding:'):].split()
        kv = dict(t.split('=', 1) for t in toks[:2] if '=' in t)
        if kv.get('property') == pid and 'key' in kv:
            res[kv['key']] = ' '.join(toks[2:])
    return res


class Run:
    """One execution of one property's check (or one shard of it)."""

    def __init__(self, pid, tier, seed, shard=0, nshards=1, replay=None):
        self.pid, self.tier, self.seed, self.shard, self.nshards = pid, tier, seed, shard, nshards
        self.replay = replay
        self.t0 = time.time()
        self.counters = collections.Counter()
        self.sets = collections.defaultdict(set)      # named coverage sets (small values)
        self.fps = set()                              # distinct non-trivial case fingerprints
        self.evaluations = 0
        self.samples = []
        self.sample_cap = 6
        self.violations = {}                          # key -> record
        self.known_hit = {}
        self.inconclusive = []
        self.floors = []                              # (name, getter, minimum)
        self.rule = ''
        self.assumptions = []
        self.extra = {}
        self.exc_hist = collections.Counter()
        self.known = load_known(pid)
        self.max_violation_classes = 40

    # ---- coverage bookkeeping
    def case(self, fingerprint=None, sample=None, n=1):
        self.evaluations += n
        if fingerprint is not None:
            self.fps.add(fingerprint if isinstance(fingerprint, bytes) else fp(fingerprint))
        if sample is not None and len(self.samples) < self.sample_cap:
            self.samples.append(jsonable(sample))

    def count(self, name, n=1):
        self.counters[name] += n

    def cover(self, setname, value):
        self.sets[setname].add(value)

    def exc(self, e):
        self.exc_hist[type(e).__name__] += 1

    def floor(self, name, minimum, kind='counter'):
        """Coverage floor: if not reached at the end the run is inconclusive, not held."""
        self.floors.append((name, minimum, kind))

    # ---- verdicts
    def violation(self, key, message, witness=None):
        key = str(key)
        if key in self.known:
            if key not in self.known_hit:
                self.known_hit[key] = {'message': message, 'witness': jsonable(witness), 'n': 0}
            self.known_hit[key]['n'] += 1
            return
        if key in self.violations:
            self.violations[key]['n'] += 1
            return
        if len(self.violations) >= self.max_violation_classes:
            self.counters['violation_classes_dropped'] += 1
            return
        self.violations[key] = {'key': key, 'message': message, 'witness': jsonable(witness), 'n': 1}

    def inconc(self, reason):
        if reason not in self.inconclusive:
            self.inconclusive.append(reason)

    def check(self, cond, key, message, witness=None):
        self.counters['oracle_evaluations'] += 1
        if not cond:
            self.violation(key, message, witness)
        return cond

    # ---- shard (de)serialisation
    def dump_state(self):
        return {
            'counters': dict(self.counters), 'sets': {k: sorted(map(repr, v)) for k, v in self.sets.items()},
            'fps': [x.hex() for x in self.fps], 'evaluations': self.evaluations, 'samples': self.samples,
            'violations': self.violations, 'known_hit': self.known_hit, 'inconclusive': self.inconclusive,
            'exc_hist': dict(self.exc_hist), 'extra': self.extra, 'rule': self.rule,
            'assumptions': self.assumptions, 'floors': self.floors,
        }

    def merge_state(self, st):
        self.counters.update(st['counters'])
        for k, v in st['sets'].items():
            self.sets[k].update(v)
        self.fps.update(bytes.fromhex(x) for x in st['fps'])
        self.evaluations += st['evaluations']
        for s in st['samples']:
            if len(self.samples) < self.sample_cap:
                self.samples.append(s)
        for k, v in st['violations'].items():
            if k in self.violations:
                self.violations[k]['n'] += v['n']
            else:
                self.violations[k] = v
        for k, v in st['known_hit'].items():
            if k in self.known_hit:
                self.known_hit[k]['n'] += v['n']
            else:
                self.known_hit[k] = v
        for r in st['inconclusive']:
            self.inconc(r)
        self.exc_hist.update(st['exc_hist'])
        for k, v in st['extra'].items():
            if isinstance(v, (int, float)) and isinstance(self.extra.get(k), (int, float)):
                self.extra[k] = max(self.extra[k], v)
            elif isinstance(v, list) and isinstance(self.extra.get(k), list):
                self.extra[k] = (self.extra[k] + v)[:200]
            else:
                self.extra.setdefault(k, v)
        self.rule = self.rule or st['rule']
        for a in st['assumptions']:
            if a not in self.assumptions:
                self.assumptions.append(a)
        self.floors = [tuple(f) for f in st['floors']] or self.floors

    # ---- final
    def _floor_value(self, name, kind):
        if kind == 'counter':
            return self.counters.get(name, 0)
        if kind == 'set':
            return len(self.sets.get(name, ()))
        return 0

    def finish(self, level='exploration'):
        """Write evidence (+replays), print verdict lines, return exit code 0/1/2."""
        for name, minimum, kind in self.floors:
            v = self._floor_value(name, kind)
            if v < minimum:
                self.inconc(f'coverage-floor:{name}={v}<{minimum}')
        if self.evaluations == 0 or self.counters.get('oracle_evaluations', 0) == 0:
            self.inconc('no-oracle-evaluations')
        wall = time.time() - self.t0
        replay_paths = []
        if self.violations and not self.replay:
            d = os.path.join(OUT_DIR, 'replays', self.pid)
            os.makedirs(d, exist_ok=True)
            for key, v in self.violations.items():
                safe = ''.join(c if c.isalnum() or c in '-_.' else '_' for c in key)[:80]
                path = os.path.join(d, f'{safe}.json')
                with open(path, 'w') as f:
                    json.dump({'property': self.pid, 'seed': self.seed, 'tier': self.tier, **v}, f, indent=1)
                replay_paths.append((key, path, v))
        elif self.violations:
            replay_paths = [(k, self.replay, v) for k, v in self.violations.items()]
        coverage = {
            'evaluations': self.evaluations,
            'distinct_nontrivial': len(self.fps),
            'rule': self.rule,
            'samples': self.samples or ['(no sample recorded)'],
            'exhaustive': False,
            'oracle_evaluations': self.counters.get('oracle_evaluations', 0),
            'counters': {k: v for k, v in sorted(self.counters.items())},
            'covered': {k: (sorted(v, key=repr)[:64] if len(v) <= 64 else {'n': len(v), 'first': sorted(v, key=repr)[:16]})
                        for k, v in sorted(self.sets.items())},
            'covered_sizes': {k: len(v) for k, v in sorted(self.sets.items())},
            'exceptions_seen': dict(self.exc_hist),
            'known_findings_hit': {k: v['n'] for k, v in self.known_hit.items()},
            'inconclusive_reasons': self.inconclusive,
            'shards': self.nshards,
        }
        coverage.update(jsonable(self.extra))
        ev = {
            'property_id': self.pid, 'tier': self.tier, 'seed': self.seed, 'level': level,
            'coverage': coverage, 'assumptions': self.assumptions, 'wall_s': round(wall, 2),
            'violations': len(self.violations),
            'verdict': 'violated' if self.violations else ('inconclusive' if self.inconclusive else 'held'),
        }
        if not self.replay:
            os.makedirs(os.path.join(OUT_DIR, 'evidence'), exist_ok=True)
            with open(os.path.join(OUT_DIR, 'evidence', f'{self.pid}.json'), 'w') as f:
                json.dump(ev, f, indent=1, sort_keys=False, default=repr)
        for key, v in self.known_hit.items():
            print(f'KNOWN-FINDING: property={self.pid} key={key} {self.known[key]} (seen {v["n"]}x)')
        for key, path, v in replay_paths:
            print(f'VIOLATION property={self.pid} replay={path} key={key} n={v["n"]} :: {v["message"][:300]}')
        print(f'[{self.pid}] tier={self.tier} seed={self.seed} evaluations={self.evaluations} '
              f'distinct={len(self.fps)} oracle_evals={coverage["oracle_evaluations"]} wall={wall:.1f}s '
              f'verdict={ev["verdict"]}')
        for tb in self.extra.get('harness_traceback', []) if isinstance(self.extra.get('harness_traceback'), list) else []:
            print('HARNESS-EXCEPTION (not an observation of the property):\n' + str(tb))
        if self.violations:
            return 1
        if self.inconclusive:
            print(f'INCONCLUSIVE property={self.pid} reason={";".join(self.inconclusive)}')
            return 2
        return 0


# ---------------------------------------------------------------------------------------------
# M-POST: wrappers

class Patch:
    """Reversible attribute patches (class/module attributes)."""

    def __init__(self):
        self.saved = []

    def set(self, obj, name, new):
        self.saved.append((obj, name, obj.__dict__.get(name, _MISSING) if hasattr(obj, '__dict__') else getattr(obj, name)))
        setattr(obj, name, new)

    def undo(self):
        for obj, name, old in reversed(self.saved):
            if old is _MISSING:
                delattr(obj, name)
            else:
                setattr(obj, name, old)
        self.saved.clear()


_MISSING = object()


def srepr(x, n=120):
    try:
        return repr(x)[:n]
    except Exception as e:
        return f'<unreprable {type(x).__name__}: {type(e).__name__}>'


def call(f, *a, **k):
    """Run f; return ('ok', value) or ('exc', exception). Only Exception subclasses are 'rejections'."""
    try:
        return 'ok', f(*a, **k)
    except (Budget, Watchdog):
        raise
    except RecursionError as e:
        return 'exc', e
    except Exception as e:
        return 'exc', e


# ---------------------------------------------------------------------------------------------
# M-STEP: logical step counter over repository code only

class StepCounter:
    TOOL = 3

    def __init__(self, root=None):
        self.root = os.path.join(root or REPO, 'pytoniq_core') + os.sep
        self.steps = 0
        self.budget = None
        self.active = False
        self.mon = sys.monitoring
        self._inrepo = {}

    def _line(self, code, lineno):
        ok = self._inrepo.get(code)
        if ok is None:
            ok = self._inrepo[code] = os.path.realpath(code.co_filename).startswith(self.root)
        if not ok:
            return self.mon.DISABLE
        self.steps += 1
        if self.budget is not None and self.steps > self.budget:
            self.budget = None
            raise Budget()

    def _jump(self, code, src, dst):
        # backward jumps = loop iterations: a loop written on one line (comprehension, `for ...: stmt`) fires no LINE event per iteration
        if dst > src:
            return None
        return self._line(code, 0)

    def start(self):
        m = self.mon
        try:
            m.use_tool_id(self.TOOL, 'verif-steps')
        except ValueError:
            pass
        m.register_callback(self.TOOL, m.events.LINE, self._line)
        m.register_callback(self.TOOL, m.events.JUMP, self._jump)
        m.set_events(self.TOOL, m.events.LINE | m.events.JUMP)
        self.active = True

    def stop(self):
        m = self.mon
        m.set_events(self.TOOL, 0)
        m.register_callback(self.TOOL, m.events.LINE, None)
        m.register_callback(self.TOOL, m.events.JUMP, None)
        try:
            m.free_tool_id(self.TOOL)
        except ValueError:
            pass
        self.active = False

    def measure(self, f, budget):
        """Return (steps, outcome) where outcome is ('ok', v) | ('exc', e) | ('budget', None)."""
        self.steps = 0
        self.budget = budget
        try:
            out = call(f)
        except Budget:
            out = ('budget', None)
        finally:
            self.budget = None
        return self.steps, out

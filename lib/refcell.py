"""R1: reference cell model (tvm.pdf 3.1, TON DataCell semantics) and R2: strict serialized_boc codec
(crypto/tl/boc.tlb).  Uses none of the library's classes: bits are '0'/'1' strings, hashing is hashlib."""
import hashlib

from . import crcref

ORD, PRUNED, LIB, MPROOF, MUPDATE = -1, 1, 2, 3, 4


class RefError(Exception):
    pass


def popcount(x):
    return bin(x).count('1')


def bits_to_bytes_tagged(bits: str) -> bytes:
    """data padded with the completion tag (1 then zeros) when not byte aligned"""
    if len(bits) % 8:
        bits = bits + '1' + '0' * (7 - len(bits) % 8)
    return int(bits, 2).to_bytes(len(bits) // 8, 'big') if bits else b''


def bytes_to_bits(b: bytes) -> str:
    return bin(int.from_bytes(b, 'big'))[2:].zfill(len(b) * 8) if b else ''


class RC:
    """Immutable reference cell. For exotic cells `bits` includes the leading 8-bit type tag."""
    __slots__ = ('type', 'bits', 'refs', 'mask', 'hashes', 'depths', '_sig')

    def __init__(self, bits: str, refs=(), type_=ORD, validate=True):
        self.type, self.bits, self.refs = type_, bits, tuple(refs)
        if len(bits) > 1023 or len(self.refs) > 4:
            raise RefError('capacity')
        t = type_
        if t == ORD:
            m = 0
            for r in self.refs:
                m |= r.mask
        elif t == PRUNED:
            if len(bits) < 16:
                raise RefError('pruned too short')
            m = int(bits[8:16], 2)
        elif t == LIB:
            m = 0
        elif t == MPROOF:
            if len(self.refs) != 1:
                raise RefError('merkle proof refs')
            m = self.refs[0].mask >> 1
        elif t == MUPDATE:
            if len(self.refs) != 2:
                raise RefError('merkle update refs')
            m = (self.refs[0].mask | self.refs[1].mask) >> 1
        else:
            raise RefError('unknown type')
        self.mask = m
        if t != ORD and (len(bits) < 8 or int(bits[:8], 2) != t):
            raise RefError('type tag mismatch')
        if validate:
            self._validate()
        self._compute()

    # ---- spec validity of exotic cells
    def _validate(self):
        t, bits, refs = self.type, self.bits, self.refs
        if t == PRUNED:
            m = self.mask
            if refs or not 1 <= m <= 7:
                raise RefError('pruned mask/refs')
            if len(bits) != 16 + popcount(m) * 272:
                raise RefError('pruned size')
        elif t == LIB:
            if refs or len(bits) != 8 + 256:
                raise RefError('library size')
        elif t == MPROOF:
            if len(bits) != 8 + 256 + 16:
                raise RefError('merkle proof size')
            c = refs[0]
            if bits[8:264] != bytes_to_bits(c.get_hash(0)) or int(bits[264:280], 2) != c.get_depth(0):
                raise RefError('merkle proof stored hash/depth')
        elif t == MUPDATE:
            if len(bits) != 8 + 2 * 272:
                raise RefError('merkle update size')
            for i, c in enumerate(refs):
                if bits[8 + 256 * i: 264 + 256 * i] != bytes_to_bits(c.get_hash(0)):
                    raise RefError('merkle update stored hash')
                if int(bits[520 + 16 * i: 536 + 16 * i], 2) != c.get_depth(0):
                    raise RefError('merkle update stored depth')

    def d1(self, mask):
        return len(self.refs) + 8 * (self.type != ORD) + 32 * mask

    def d2(self):
        b = len(self.bits)
        return b // 8 + (b + 7) // 8

    def _compute(self):
        m = self.mask
        data = bits_to_bytes_tagged(self.bits)
        merkle = 1 if self.type in (MPROOF, MUPDATE) else 0
        self.hashes, self.depths = [], []
        if self.type == PRUNED:
            # a pruned branch has one hash of its own, at its top level; lower levels are stored in the data
            self.hashes.append(hashlib.sha256(bytes([self.d1(m), self.d2()]) + data).digest())
            self.depths.append(0)
            return
        sig = [0] + [j for j in (1, 2, 3) if (m >> (j - 1)) & 1]
        for k, li in enumerate(sig):
            h = hashlib.sha256(bytes([self.d1(m & ((1 << li) - 1)), self.d2()]))
            h.update(data if k == 0 else self.hashes[k - 1])
            depth = 0
            for r in self.refs:
                d = r.get_depth(li + merkle)
                h.update(d.to_bytes(2, 'big'))
                depth = max(depth, d + 1)
            if depth > 1023:
                raise RefError('depth')
            for r in self.refs:
                h.update(r.get_hash(li + merkle))
            self.hashes.append(h.digest())
            self.depths.append(depth)

    def _index(self, level):
        return popcount(self.mask & ((1 << level) - 1))

    def get_hash(self, level=3):
        i = self._index(level)
        if self.type == PRUNED:
            if i != popcount(self.mask):
                return bits_to_bytes_tagged(self.bits[16 + 256 * i: 16 + 256 * (i + 1)])
            i = 0
        return self.hashes[i]

    def get_depth(self, level=3):
        i = self._index(level)
        if self.type == PRUNED:
            n = popcount(self.mask)
            if i != n:
                o = 16 + 256 * n + 16 * i
                return int(self.bits[o: o + 16], 2)
            i = 0
        return self.depths[i]

    @property
    def hash(self):
        return self.get_hash(3)

    @property
    def depth(self):
        return self.get_depth(3)

    @property
    def level(self):
        return self.mask.bit_length()

    def key(self):
        return self.hash

    def __eq__(self, o):
        return isinstance(o, RC) and self.hash == o.hash

    def __hash__(self):
        return hash(self.hash)

    def __repr__(self):
        return f'RC(t={self.type},b={len(self.bits)},r={len(self.refs)},m={self.mask})'

    def serialize(self, index_of, size, with_hashes=False):
        """cell as it appears in cell_data"""
        out = bytearray([self.d1(self.mask) | (16 if with_hashes else 0), self.d2()])
        if with_hashes:
            levels = [0] + [j for j in (1, 2, 3) if (self.mask >> (j - 1)) & 1]
            for li in levels:
                out += self.get_hash(li)
            for li in levels:
                out += self.get_depth(li).to_bytes(2, 'big')
        out += bits_to_bytes_tagged(self.bits)
        for r in self.refs:
            out += index_of[r.hash].to_bytes(size, 'big')
        return bytes(out)


def structural(c: RC):
    """hashable structural description: (type, bits, child hashes) for every reachable cell"""
    seen = {}
    stack = [c]
    while stack:
        x = stack.pop()
        if x.hash in seen:
            continue
        seen[x.hash] = (x.type, x.bits, tuple(r.hash for r in x.refs))
        stack.extend(x.refs)
    return seen


def topo_order(roots):
    """a valid BoC order (parents before children), distinct cells by hash; deterministic DFS post-order reversed"""
    order, seen = [], set()
    for root in roots:
        stack = [(root, 0)]
        while stack:
            c, i = stack.pop()
            if i == 0:
                if c.hash in seen:
                    continue
                seen.add(c.hash)
            if i < len(c.refs):
                stack.append((c, i + 1))
                if c.refs[i].hash not in seen:
                    stack.append((c.refs[i], 0))
            else:
                order.append(c)
    order.reverse()
    return order


def random_topo_order(roots, rng):
    """a uniformly-ish random linear extension (parents before children)"""
    cells = {}
    stack = list(roots)
    while stack:
        c = stack.pop()
        if c.hash in cells:
            continue
        cells[c.hash] = c
        stack.extend(c.refs)
    indeg = {h: 0 for h in cells}
    for c in cells.values():
        for h in {r.hash for r in c.refs}:
            indeg[h] += 1
    ready = sorted(h for h, d in indeg.items() if d == 0)
    out = []
    while ready:
        h = ready.pop(rng.randrange(len(ready)))
        c = cells[h]
        out.append(c)
        for ch in sorted({r.hash for r in c.refs}):
            indeg[ch] -= 1
            if indeg[ch] == 0:
                ready.append(ch)
    if len(out) != len(cells):
        raise RefError('cycle?')
    return out


MAGIC_GENERIC = bytes.fromhex('b5ee9c72')
MAGIC_IDX = bytes.fromhex('68ff65f3')
MAGIC_IDX_CRC = bytes.fromhex('acc3a728')


def minbytes(x):
    return max(1, (x.bit_length() + 7) // 8)


def encode_boc(roots, order=None, magic='generic', has_idx=False, has_crc=False, has_cache_bits=False,
               size=None, off_bytes=None, with_hashes=False, cache_bit_fn=None, forge=None):
    """Conforming encoder with every freedom exposed.  `order`: list of RC (parents first).  For the lean
    magics the single root must be order[0]."""
    order = order or topo_order(roots)
    index_of = {c.hash: i for i, c in enumerate(order)}
    n = len(order)
    size = size or minbytes(n)
    if size < minbytes(n) or size > 4:
        raise RefError('size width')
    wh = with_hashes if callable(with_hashes) else (lambda c: with_hashes)
    blobs = [c.serialize(index_of, size, wh(c)) for c in order]
    if forge:      # NON-conforming on purpose: forge(i, cell, blob) -> blob, e.g. untrue stored hashes (used by negative tests only)
        blobs = [forge(i, c, b) for i, (c, b) in enumerate(zip(order, blobs))]
    data = b''.join(blobs)
    ends, acc = [], 0
    for b in blobs:
        acc += len(b)
        ends.append(acc)
    maxoff = (acc * 2 + 1) if has_cache_bits else acc
    off_bytes = off_bytes or minbytes(maxoff if (has_idx or magic != 'generic') else acc)
    if off_bytes > 8 or acc >= 1 << (8 * off_bytes):
        raise RefError('offset width')
    root_idx = [index_of[r.hash] for r in roots]
    out = bytearray()
    if magic == 'generic':
        out += MAGIC_GENERIC
        out.append((128 if has_idx else 0) | (64 if has_crc else 0) | (32 if has_cache_bits else 0) | size)
    else:
        if len(roots) != 1 or root_idx[0] != 0 or has_cache_bits:
            raise RefError('lean form needs one root at index 0')
        has_idx = True
        has_crc = magic == 'idx_crc'
        out += MAGIC_IDX_CRC if has_crc else MAGIC_IDX
        out.append(size)
    out.append(off_bytes)
    out += n.to_bytes(size, 'big') + len(roots).to_bytes(size, 'big') + (0).to_bytes(size, 'big')
    out += acc.to_bytes(off_bytes, 'big')
    if magic == 'generic':
        for ri in root_idx:
            out += ri.to_bytes(size, 'big')
    if has_idx:
        for i, e in enumerate(ends):
            v = e
            if has_cache_bits:
                v = e * 2 + (1 if cache_bit_fn and cache_bit_fn(i) else 0)
            out += v.to_bytes(off_bytes, 'big')
    out += data
    if has_crc:
        out += crcref.crc32c_fast(bytes(out)).to_bytes(4, 'little')
    return bytes(out)


def decode_boc(data: bytes, strict_distinct=True):
    """Strict decoder. Returns dict(roots=[RC], cells=[RC], header=...). Raises RefError on any non-conformance."""
    if len(data) < 6:
        raise RefError('short')
    magic = data[:4]
    p = 4
    hdr = {}
    if magic == MAGIC_GENERIC:
        f = data[p]
        p += 1
        hdr.update(has_idx=bool(f & 128), has_crc=bool(f & 64), has_cache_bits=bool(f & 32), flags=(f >> 3) & 3, size=f & 7,
                   magic='generic')
        if hdr['flags'] != 0:
            raise RefError('reserved flags non-zero')
        if hdr['has_cache_bits'] and not hdr['has_idx']:
            raise RefError('cache bits without index')
    elif magic in (MAGIC_IDX, MAGIC_IDX_CRC):
        hdr.update(has_idx=True, has_crc=magic == MAGIC_IDX_CRC, has_cache_bits=False, flags=0, size=data[p],
                   magic='idx_crc' if magic == MAGIC_IDX_CRC else 'idx')
        p += 1
    else:
        raise RefError('magic')
    size = hdr['size']
    if not 1 <= size <= 4:
        raise RefError('size')
    off = data[p]
    p += 1
    if not 1 <= off <= 8:
        raise RefError('off_bytes')
    hdr['off_bytes'] = off

    def take(nb):
        nonlocal p
        if p + nb > len(data):
            raise RefError('truncated')
        v = int.from_bytes(data[p:p + nb], 'big')
        p += nb
        return v
    cells, roots, absent = take(size), take(size), take(size)
    if roots < 1 or roots + absent > cells:
        raise RefError('roots/absent')
    if absent:
        raise RefError('absent cells unsupported')
    if hdr['magic'] != 'generic' and roots != 1:
        raise RefError('lean roots')
    tot = take(off)
    root_list = [take(size) for _ in range(roots)] if hdr['magic'] == 'generic' else [0]
    if any(r >= cells for r in root_list):
        raise RefError('root index')
    index = [take(off) for _ in range(cells)] if hdr['has_idx'] else None
    if p + tot > len(data):
        raise RefError('truncated cell data')
    cd = data[p:p + tot]
    p += tot
    if hdr['has_crc']:
        if p + 4 != len(data):
            raise RefError('length with crc')
        if crcref.crc32c_fast(data[:p]).to_bytes(4, 'little') != data[p:p + 4]:
            raise RefError('crc mismatch')
        p += 4
    if p != len(data):
        raise RefError('trailing bytes')
    hdr.update(cells=cells, roots=roots, tot=tot, root_list=root_list, index=index)
    # cells
    raw = []
    q = 0
    ends = []
    for ci in range(cells):
        if q + 2 > len(cd):
            raise RefError('cell truncated')
        d1, d2 = cd[q], cd[q + 1]
        q += 2
        r, s, h, lm = d1 & 7, bool(d1 & 8), bool(d1 & 16), d1 >> 5
        if r > 4:
            raise RefError('refs>4 / absent')
        stored = None
        if h:
            nh = popcount(lm) + 1
            stored = (cd[q:q + 32 * nh], cd[q + 32 * nh:q + 34 * nh])
            q += 34 * nh
        nbytes = (d2 >> 1) + (d2 & 1)
        if q + nbytes + r * size > len(cd):
            raise RefError('cell data truncated')
        b = bytes_to_bits(cd[q:q + nbytes])
        q += nbytes
        if d2 & 1:
            k = b.rfind('1')
            if k < 0 or len(b) - k > 8:
                raise RefError('completion tag')
            b = b[:k]
            if len(b) // 8 != (d2 >> 1):
                raise RefError('completion tag not in last byte')
        refs = [int.from_bytes(cd[q + i * size:q + (i + 1) * size], 'big') for i in range(r)]
        q += r * size
        for x in refs:
            if x <= ci or x >= cells:
                raise RefError(f'reference {ci}->{x} not strictly forward')
        raw.append((b, refs, s, lm, stored))
        ends.append(q)
    if q != len(cd):
        raise RefError('cell data length')
    if index is not None:
        for i, e in enumerate(ends):
            want = e * 2 if hdr['has_cache_bits'] else e
            got = index[i]
            if hdr['has_cache_bits']:
                got &= ~1
            if got != want:
                raise RefError(f'index[{i}]={index[i]} but cell ends at {e}')
    built = [None] * cells
    for ci in reversed(range(cells)):
        b, refs, s, lm, stored = raw[ci]
        t = ORD
        if s:
            if len(b) < 8:
                raise RefError('exotic without type')
            t = int(b[:8], 2)
        c = RC(b, [built[x] for x in refs], t)
        if c.mask != lm:
            raise RefError(f'level mask mismatch cell {ci}: d1 says {lm}, computed {c.mask}')
        if stored:
            levels = [0] + [j for j in (1, 2, 3) if (c.mask >> (j - 1)) & 1]
            if b''.join(c.get_hash(li) for li in levels) != stored[0]:
                raise RefError('stored hash mismatch')
            if b''.join(c.get_depth(li).to_bytes(2, 'big') for li in levels) != stored[1]:
                raise RefError('stored depth mismatch')
        built[ci] = c
    if strict_distinct and len({c.hash for c in built}) != cells:
        raise RefError('duplicate cell')
    # every cell reachable from some root (no garbage)
    reach = set()
    stack = [built[i] for i in root_list]
    while stack:
        c = stack.pop()
        if c.hash in reach:
            continue
        reach.add(c.hash)
        stack.extend(c.refs)
    if strict_distinct and len(reach) != cells:
        raise RefError('unreachable cell in bag')
    return {'roots': [built[i] for i in root_list], 'cells': built, 'header': hdr}


# ------------------------------------------------------------------------------------------
# builders for exotic reference cells

def u(n, w):
    return bin(n)[2:].zfill(w) if w else ''


def make_pruned(sub: RC, level_bit: int):
    """pruned branch replacing `sub`, with top level `level_bit` (1..3): mask = sub.mask | 1<<(level_bit-1);
    carries sub's hashes/depths at every significant level below level_bit"""
    m = sub.mask | (1 << (level_bit - 1))
    if sub.mask >> (level_bit - 1):
        raise RefError('sub level too high to prune at this level')
    levels = [0] + [j for j in (1, 2, 3) if (m >> (j - 1)) & 1]
    levels = levels[:-1]  # the top level is the pruned cell's own hash
    bits = u(PRUNED, 8) + u(m, 8) + ''.join(bytes_to_bits(sub.get_hash(li)) for li in levels) + \
        ''.join(u(sub.get_depth(li), 16) for li in levels)
    return RC(bits, (), PRUNED)


def make_merkle_proof(child: RC):
    return RC(u(MPROOF, 8) + bytes_to_bits(child.get_hash(0)) + u(child.get_depth(0), 16), (child,), MPROOF)


def make_merkle_update(a: RC, b: RC):
    bits = u(MUPDATE, 8) + bytes_to_bits(a.get_hash(0)) + bytes_to_bits(b.get_hash(0)) + u(a.get_depth(0), 16) + u(b.get_depth(0), 16)
    return RC(bits, (a, b), MUPDATE)


def make_library(h: bytes):
    return RC(u(LIB, 8) + bytes_to_bits(h), (), LIB)

"""R5: independent reader of the bundled .tl files and TL binary codec (core.telegram.org/mtproto/serialize as used by TON).
Values are in the canonical forms the library's parser returns: ints, bool, hex strings for int128/int256, str, bytes, lists, dicts
(with '@type' for objects)."""
import os
import re
import zlib

BASE = {'#': 4, 'int': 4, 'long': 8, 'int128': 16, 'int256': 32}
BOOL_TRUE = (0x997275b5).to_bytes(4, 'little')
BOOL_FALSE = (0xbc799737).to_bytes(4, 'little')


class Ctor:
    def __init__(self, name, cid, fields, cls, text):
        self.name, self.id, self.fields, self.cls, self.text = name, cid, fields, cls, text

    @property
    def wire_id(self):
        return self.id.to_bytes(4, 'little')


def _split_fields(body):
    """'a:int b:(vector c.d) e:flags.0?X' -> [(a,int),(b,'(vector c.d)'),(e,'flags.0?X')]"""
    out, depth, tok = [], 0, ''
    for ch in body + ' ':
        if ch == '(':
            depth += 1
        elif ch == ')':
            depth -= 1
        if ch == ' ' and depth == 0:
            if tok:
                out.append(tok)
            tok = ''
        else:
            tok += ch
    fields = []
    for t in out:
        if ':' not in t:
            raise ValueError(f'field without type: {t}')
        n, ty = t.split(':', 1)
        fields.append((n, ty))
    return fields


def read_schemas(repo_root):
    d = os.path.join(repo_root, 'pytoniq_core', 'tl', 'schemas')
    ctors = {}
    skipped = []
    for fn in sorted(os.listdir(d)):
        if not fn.endswith('.tl'):
            continue
        buf = ''
        for line in open(os.path.join(d, fn)):
            line = line.split('//')[0].strip()
            if not line or line.startswith('---'):
                continue
            buf += (' ' if buf else '') + line
            if ';' not in line:
                continue
            decl, buf = buf, ''
            decl = re.sub(r'\s+', ' ', decl.replace(';', '')).strip()
            if ' ? = ' in decl or '{' in decl or '*[' in decl or '[' in decl:
                skipped.append(decl)
                continue
            left, cls = decl.rsplit(' = ', 1)
            parts = left.split(' ', 1)
            head, body = parts[0], (parts[1] if len(parts) > 1 else '')
            if '#' in head:
                name, hx = head.split('#')
                cid = int(hx, 16)
            else:
                name = head
                cid = zlib.crc32(decl.replace('(', '').replace(')', '').encode())
            try:
                fields = _split_fields(body)
            except ValueError:
                skipped.append(decl)
                continue
            ctors[name] = Ctor(name, cid, fields, cls.strip(), decl)
    return ctors, skipped


class Codec:
    def __init__(self, ctors):
        self.by_name = ctors
        self.by_class = {}
        for c in ctors.values():
            self.by_class.setdefault(c.cls, []).append(c)
        self.by_id = {c.id: c for c in ctors.values()}
        self._sup = {}

    # ---- which constructors use only type forms the library supports
    def type_supported(self, t, stack=()):
        if '?' in t:
            var, rest = t.split('?', 1)
            if var.split('.')[0] not in ('mode', 'flags'):
                return False, f'flag variable {var.split(".")[0]}'
            return self.type_supported(rest, stack)
        if t in BASE or t in ('Bool', 'string', 'bytes', 'true'):
            return True, ''
        if t.startswith('('):
            inner = t[1:-1].split(' ', 1)
            if inner[0] != 'vector' or len(inner) != 2:
                return False, f'type form {t}'
            return self.type_supported(inner[1].strip(), stack)
        if '<' in t:
            return False, 'vector<T> spelling'
        if t == 'double':
            return False, 'double'
        if t in self.by_name:
            return self.ctor_supported(t, stack)
        if t in self.by_class:
            oks = [self.ctor_supported(c.name, stack)[0] for c in self.by_class[t]]
            return (True, '') if any(oks) else (False, f'no supported constructor of {t}')
        return False, f'unknown type {t}'

    def ctor_supported(self, name, stack=()):
        if name in self._sup:
            return self._sup[name]
        if name in stack:
            return True, ''          # recursion: decided by the other fields
        c = self.by_name[name]
        res = (True, '')
        has_flagvar = {f for f, t in c.fields if t == '#'}
        for f, t in c.fields:
            if '?' in t and t.split('?')[0].split('.')[0] not in has_flagvar:
                res = (False, 'flag variable not a field')
                break
            ok, why = self.type_supported(t, stack + (name,))
            if not ok:
                res = (False, why)
                break
        if not stack:
            self._sup[name] = res
        return res

    # ---- encoding
    @staticmethod
    def tl_bytes(b):
        n = len(b)
        out = (bytes([n]) if n <= 253 else b'\xfe' + n.to_bytes(3, 'little')) + b
        return out + b'\x00' * (-len(out) % 4)

    def enc_type(self, t, v):
        if t == '#':
            return v.to_bytes(4, 'little', signed=False)
        if t == 'int':
            return v.to_bytes(4, 'little', signed=True)
        if t == 'long':
            return v.to_bytes(8, 'little', signed=True)
        if t in ('int128', 'int256'):
            b = bytes.fromhex(v)
            assert len(b) == BASE[t]
            return b
        if t == 'Bool':
            return BOOL_TRUE if v else BOOL_FALSE
        if t == 'true':
            return b''
        if t == 'string':
            return self.tl_bytes(v.encode())
        if t == 'bytes':
            if isinstance(v, dict):
                return self.tl_bytes(self.encode(v, boxed=True))
            return self.tl_bytes(v)
        if t.startswith('('):
            sub = t[1:-1].split(' ', 1)[1].strip()
            return len(v).to_bytes(4, 'little') + b''.join(self.enc_type(sub, x) for x in v)
        if t in self.by_name:
            return self.encode(dict(v, **{'@type': t}), boxed=False)
        if t in self.by_class:
            return self.encode(v, boxed=True)
        raise ValueError(t)

    def encode(self, v, boxed=True):
        c = self.by_name[v['@type']]
        out = c.wire_id if boxed else b''
        for f, t in c.fields:
            if '?' in t:
                var, rest = t.split('?', 1)
                vname, bit = var.split('.')
                if not (v[vname] >> int(bit)) & 1:
                    assert v.get(f) is None
                    continue
                t = rest
            out += self.enc_type(t, v[f])
        return out

    # ---- decoding (strict: must consume what it is given)
    def dec_type(self, t, data, p):
        if t in BASE and t not in ('int128', 'int256'):
            n = BASE[t]
            return int.from_bytes(data[p:p + n], 'little', signed=(t != '#')), p + n
        if t in ('int128', 'int256'):
            n = BASE[t]
            return data[p:p + n].hex(), p + n
        if t == 'Bool':
            return data[p:p + 4] == BOOL_TRUE, p + 4
        if t == 'true':
            return {'@type': 'true'}, p
        if t in ('string', 'bytes'):
            if data[p] == 0xfe:
                n = int.from_bytes(data[p + 1:p + 4], 'little')
                q = p + 4
            else:
                n = data[p]
                q = p + 1
            if q + n > len(data):
                raise ValueError('string length exceeds the input')
            b = data[q:q + n]
            e = q + n
            e += -(e - p) % 4
            return (b.decode() if t == 'string' else b), e
        if t.startswith('('):
            sub = t[1:-1].split(' ', 1)[1].strip()
            n = int.from_bytes(data[p:p + 4], 'little')
            p += 4
            if n > len(data) - p + 1 and sub != 'true':
                raise ValueError('vector count exceeds the input')
            out = []
            for _ in range(n):
                x, p = self.dec_type(sub, data, p)
                out.append(x)
            return out, p
        if t in self.by_name:
            return self.decode(data, p, self.by_name[t])
        if t in self.by_class:
            c = self.by_id[int.from_bytes(data[p:p + 4], 'little')]
            return self.decode(data, p + 4, c)
        raise ValueError(t)

    def decode(self, data, p, c):
        v = {'@type': c.name}
        for f, t in c.fields:
            if '?' in t:
                var, rest = t.split('?', 1)
                vname, bit = var.split('.')
                if not (v[vname] >> int(bit)) & 1:
                    continue
                t = rest
            v[f], p = self.dec_type(t, data, p)
        return v, p


def selftest(repo_root='/repo'):
    ctors, skipped = read_schemas(repo_root)
    c = Codec(ctors)
    assert ctors['liteServer.getMasterchainInfo'].id == 0x89b5e62e, hex(ctors['liteServer.getMasterchainInfo'].id)
    assert ctors['liteServer.query'].id == 0x798c06df
    assert ctors['adnl.message.query'].id == 0xb48bf97a
    assert ctors['liteServer.getValidatorStats'].id == 0x091a58bc
    # pinned bytes from tests/test_tl.py
    assert c.encode({'@type': 'dht.ping', 'random_id': 142536475324}) == b'\x18?\xeb\xcb' + b'\xbc\x02\xd6/!\x00\x00\x00'
    assert c.tl_bytes(b'') == b'\x00\x00\x00\x00' and len(c.tl_bytes(b'x' * 253)) == 256 and c.tl_bytes(b'x' * 254)[:4] == b'\xfe\xfe\x00\x00'
    v = {'@type': 'liteServer.lookupBlock', 'mode': 6, 'id': {'@type': 'tonNode.blockId', 'workchain': -1, 'shard': -2 ** 63, 'seqno': 5}, 'lt': 7, 'utime': 9}
    b = c.encode(v)
    back, p = c.dec_type('liteServer.BlockHeader' if False else 'liteServer.lookupBlock', b, 4)
    assert p == len(b) and back == v, (back, v)

"""Validation of the reference models themselves (run by MANIFEST.setup_cmd): known answers + metamorphic
checks inside the references.  Refuses (exit 1) if a reference is wrong."""
import hashlib
import os
import random
import sys

sys.path.insert(0, os.path.dirname(os.path.dirname(os.path.abspath(__file__))))
from lib import crcref, refcell as rc  # noqa: E402

DATA = os.path.join(os.path.dirname(os.path.dirname(os.path.abspath(__file__))), 'data')


def main():
    crcref.selftest()
    # R1: empty cell hash (tvm.pdf: sha256(00 00))
    e = rc.RC('')
    assert e.hash == hashlib.sha256(b'\x00\x00').digest()
    assert e.hash.hex() == '96a296d224f285c67bee93c30f8a309157f0daa35dc5b87e410b78630a09cfc7'
    # R2+R1: the pinned main-net block (pruned branches + merkle update inside)
    blk = open(os.path.join(DATA, 'mainnet_block.boc'), 'rb').read()
    d = rc.decode_boc(blk)
    assert d['roots'][0].hash.hex() == 'b0c09b7c116f951092b3d1b258fb98adc01c698a227b3b2e268469c24173eeb2', d['roots'][0].hash.hex()
    types = {c.type for c in d['cells']}
    assert rc.PRUNED in types and rc.MUPDATE in types, types
    # encoder∘decoder identity under the freedoms
    rng = random.Random(1)
    root = d['roots'][0]
    for kw in (dict(), dict(has_idx=True), dict(has_idx=True, has_crc=True, has_cache_bits=True), dict(size=3, off_bytes=5),
               dict(magic='idx'), dict(magic='idx_crc'), dict(with_hashes=True, has_crc=True)):
        order = rc.random_topo_order([root], rng) if kw.get('magic', 'generic') == 'generic' else None
        b = rc.encode_boc([root], order=order, **kw)
        d2 = rc.decode_boc(b)
        assert d2['roots'][0].hash == root.hash and rc.structural(d2['roots'][0]) == rc.structural(root), kw
    # pruning invariance inside the reference
    for _ in range(200):
        leaf = rc.RC(''.join(rng.choice('01') for _ in range(rng.randrange(0, 200))))
        mid = rc.RC('101', (leaf, leaf))
        top = rc.RC('1', (mid, rc.RC('0')))
        p1 = rc.make_merkle_proof(top)
        pr = rc.make_pruned(mid, 1)
        top2 = rc.RC('1', (pr, rc.RC('0')))
        p2 = rc.make_merkle_proof(top2)
        assert top2.get_hash(0) == top.get_hash(0) and top2.get_depth(0) == top.get_depth(0)
        assert p2.bits == p1.bits and p2.mask == 0 and top2.mask == 1
        assert top2.hash != top.hash
    # a pruned branch with gapped mask 0b101 and 0b110
    s = rc.RC('1' * 17)
    p01 = rc.make_pruned(s, 1)
    o = rc.RC('0', (p01,))
    p101 = rc.make_pruned(o, 3)
    assert p101.mask == 0b101 and p101.get_hash(0) == o.get_hash(0) and p101.get_hash(1) == o.get_hash(1) == o.get_hash(2)
    assert p101.get_hash(3) == p101.hash != o.hash
    p10 = rc.make_pruned(s, 2)
    o2 = rc.RC('0', (p10,))
    p110 = rc.make_pruned(o2, 3)
    assert p110.mask == 0b110 and p110.get_hash(0) == o2.get_hash(0) == o2.get_hash(1) and p110.get_hash(2) == o2.get_hash(2)
    from lib import dictref
    dictref.selftest()
    # R4 known answer: the pinned dictionary hash of tests/test_hashmap.py (two 267-bit address keys, coin values)
    keys = {'100' + '00000000' + rc.bytes_to_bits(bytes.fromhex('6f5bc67986e06430961d9df00433926a4cd92e597ddd8aa6043645ac20bd1782')): ('0001' + '00001111', []),
            '100' + '00000000' + rc.bytes_to_bits(bytes.fromhex('83dfd552e63729b472fcbcc8c45ebcc6691702558b68ec7527e1ba403a0f31a8')): ('0001' + '00001010', [])}
    assert dictref.encode(keys, 267).hash.hex() == 'c279e85752ad418d54a023d5d391066fa6a560450f9562dcecfa6e6641393b6a'
    # R3: every transcribed constructor: generate, encode, decode (exact consumption), re-encode to the identical cell
    from lib import tlbref, tlbspec
    tlbref.selftest()
    tlbspec.selftest()
    print('reference selftest ok')


if __name__ == '__main__':
    main()

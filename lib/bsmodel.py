"""R3 (part): reference bit encodings of the typed Builder/Slice fields and a sequential shadow model.
Each field kind knows: the TL-B bits it must produce, how many refs it takes, how to store it with the real
Builder, how to load / peek it with the real Slice, and how to compare the loaded value (value AND type)."""
from . import gen, refcell as rc


def u(v, w):
    if w == 0:
        assert v == 0
        return ''
    assert 0 <= v < (1 << w), (v, w)
    return bin(v)[2:].zfill(w)


def i2(v, w):
    assert -(1 << (w - 1)) <= v < (1 << (w - 1)), (v, w)
    return u(v & ((1 << w) - 1), w)


def var_uint_bits(v, lb):
    n = (v.bit_length() + 7) // 8
    return u(n, lb) + u(v, 8 * n)


def signed_bytelen(v):
    if v == 0:
        return 0
    n = 1
    while not (-(1 << (8 * n - 1)) <= v < (1 << (8 * n - 1))):
        n += 1
    return n


def var_int_bits(v, lb):
    n = signed_bytelen(v)
    return u(n, lb) + (i2(v, 8 * n) if n else '')


class Field:
    kind = '?'
    nrefs = 0

    def __init__(self, **kw):
        self.__dict__.update(kw)

    def desc(self):
        d = {k: v for k, v in self.__dict__.items() if not k.startswith('_') and k not in ('cell', 'cells')}
        d['kind'] = self.kind
        return d

    # overridables
    def bits(self):
        raise NotImplementedError

    def store(self, b):
        raise NotImplementedError

    def load(self, s):
        raise NotImplementedError

    def preload(self, s):
        return NotImplemented

    def eq(self, got):
        return type(got) is type(self.value) and got == self.value

    def ref_cells(self):
        return []


class UInt(Field):
    kind = 'uint'

    def bits(self):
        return u(self.value, self.w)

    def store(self, b):
        b.store_uint(self.value, self.w)

    def load(self, s):
        return s.load_uint(self.w)

    def preload(self, s):
        return s.preload_uint(self.w)


class Int(Field):
    kind = 'int'

    def bits(self):
        return i2(self.value, self.w)

    def store(self, b):
        b.store_int(self.value, self.w)

    def load(self, s):
        return s.load_int(self.w)

    def preload(self, s):
        return s.preload_int(self.w)


class VarUInt(Field):
    kind = 'var_uint'

    def bits(self):
        return var_uint_bits(self.value, self.lb)

    def store(self, b):
        b.store_var_uint(self.value, self.lb)

    def load(self, s):
        return s.load_var_uint(self.lb)

    def preload(self, s):
        return s.preload_var_uint(self.lb)


class VarInt(Field):
    kind = 'var_int'

    def bits(self):
        return var_int_bits(self.value, self.lb)

    def store(self, b):
        b.store_var_int(self.value, self.lb)

    def load(self, s):
        return s.load_var_int(self.lb)

    def preload(self, s):
        return s.preload_var_int(self.lb)


class Coins(Field):
    kind = 'coins'

    def bits(self):
        return var_uint_bits(self.value, 4)

    def store(self, b):
        b.store_coins(self.value)

    def load(self, s):
        return s.load_coins()

    def preload(self, s):
        return s.preload_coins()


class Bit(Field):
    kind = 'bit'

    def bits(self):
        return '1' if self.value else '0'

    def store(self, b):
        [b.store_bit, b.store_bit_int, lambda v: b.store_bit(str(v))][self.how](self.value)

    def load(self, s):
        return s.load_bit()

    def preload(self, s):
        return s.preload_bit()

    def eq(self, got):
        return isinstance(got, int) and not isinstance(got, bool) and got == self.value


class Bool(Field):
    kind = 'bool'

    def bits(self):
        return '1' if self.value else '0'

    def store(self, b):
        b.store_bool(self.value)

    def load(self, s):
        return s.load_bool()

    def preload(self, s):
        return s.preload_bool()

    def eq(self, got):
        return got is self.value


class Bits(Field):
    kind = 'bits'

    def bits(self):
        return self.value

    def store(self, b):
        if self.how == 0:
            b.store_bits(self.value)
        elif self.how == 1:
            from bitarray import bitarray
            b.store_bits(bitarray(self.value))
        else:
            b.store_bits([int(c) for c in self.value])

    def load(self, s):
        return s.load_bits(len(self.value))

    def preload(self, s):
        return s.preload_bits(len(self.value))

    def eq(self, got):
        return hasattr(got, 'to01') and got.to01() == self.value


class Bytes(Field):
    kind = 'bytes'

    def bits(self):
        return rc.bytes_to_bits(self.value)

    def store(self, b):
        b.store_bytes(self.value if self.how == 0 else bytearray(self.value))

    def load(self, s):
        return s.load_bytes(len(self.value))

    def preload(self, s):
        return s.preload_bytes(len(self.value))

    def eq(self, got):
        return type(got) is bytes and got == self.value


class String(Field):
    kind = 'string'

    def bits(self):
        return rc.bytes_to_bits(self.value.encode())

    def store(self, b):
        b.store_string(self.value)

    def _n(self):
        return len(self.value.encode())

    def load(self, s):
        # load_string(0) means "all remaining bytes": an empty string can only be loaded that way when it is last
        if self._n() == 0:
            return ''
        return s.load_string(self._n())

    def preload(self, s):
        if self._n() == 0:
            return ''
        return s.preload_string(self._n())


class Ref(Field):
    kind = 'ref'
    nrefs = 1

    def bits(self):
        return ''

    def store(self, b):
        b.store_ref(self.cell)

    def load(self, s):
        return s.load_ref()

    def preload(self, s):
        return s.preload_ref()

    def eq(self, got):
        return got is self.cell or (hasattr(got, 'hash') and got.hash == self.cell.hash)

    def ref_cells(self):
        return [self.cell]


class MaybeRef(Field):
    kind = 'maybe_ref'

    @property
    def nrefs(self):
        return 0 if self.cell is None else 1

    def bits(self):
        return '0' if self.cell is None else '1'

    def store(self, b):
        b.store_maybe_ref(self.cell)

    def load(self, s):
        return s.load_maybe_ref()

    def preload(self, s):
        return s.preload_maybe_ref()

    def eq(self, got):
        if self.cell is None:
            return got is None
        return got is not None and hasattr(got, 'hash') and got.hash == self.cell.hash

    def ref_cells(self):
        return [] if self.cell is None else [self.cell]


class Dict(Field):
    """optional dictionary: map (or None) with `w`-bit int keys and 16-bit uint values"""
    kind = 'dict'

    @property
    def nrefs(self):
        return 1 if self.value else 0

    def bits(self):
        return '1' if self.value else '0'

    def _cell(self):
        from pytoniq_core.boc import HashMap
        if not self.value:
            return None
        hm = HashMap(self.w).with_uint_values(16)
        for k, v in self.value.items():
            hm.set_int_key(k, v)
        return hm.serialize()

    def store(self, b):
        self.cell = self._cell()
        b.store_dict(self.cell)

    def load(self, s):
        return s.load_dict(self.w, value_deserializer=lambda x: x.load_uint(16))

    def preload(self, s):
        return s.preload_dict(self.w, value_deserializer=lambda x: x.load_uint(16))

    def eq(self, got):
        if not self.value:
            return got is None
        return isinstance(got, dict) and got == self.value and list(got) == sorted(self.value)

    def ref_cells(self):
        return [self.cell] if self.value else []


class Addr(Field):
    """value: None | ('ext', int, len) | ('std', wc, hash32, anycast or None) with anycast = (depth, pfx)"""
    kind = 'address'

    def bits(self):
        v = self.value
        if v is None:
            return '00'
        if v[0] == 'ext':
            return '01' + u(v[2], 9) + u(v[1], v[2])
        _, wc, h, any_ = v
        out = '10'
        if any_ is None:
            out += '0'
        else:
            out += '1' + u(any_[0], 5) + u(any_[1], any_[0])
        return out + i2(wc, 8) + rc.bytes_to_bits(h)

    def _obj(self):
        from pytoniq_core.boc.address import Address, ExternalAddress
        v = self.value
        if v is None:
            return None
        if v[0] == 'ext':
            return ExternalAddress(v[1], v[2])
        a = Address((v[1], v[2]))
        if v[3] is not None:
            a.set_anycast(*v[3])
        if self.how == 1 and v[3] is None:
            return a.to_str(is_user_friendly=bool(v[1] % 2), is_bounceable=False)
        return a

    def store(self, b):
        b.store_address(self._obj())

    def load(self, s):
        return s.load_address()

    def preload(self, s):
        return s.preload_address()

    def eq(self, got):
        from pytoniq_core.boc.address import Address, ExternalAddress
        v = self.value
        if v is None:
            return got is None
        if v[0] == 'ext':
            return isinstance(got, ExternalAddress) and got.external_address == v[1] and got.len == v[2]
        if not isinstance(got, Address) or got.wc != v[1] or got.hash_part != v[2]:
            return False
        if v[3] is None:
            return got.anycast is None
        return got.anycast is not None and (got.anycast.depth, got.anycast.rewrite_pfx) == tuple(v[3])


class Snake(Field):
    """snake-chained bytes: must be the last field; the reference knows how it is split given the fill level"""
    kind = 'snake'

    def store(self, b):
        if self.how == 0:
            b.store_snake_bytes(self.value)
        else:
            b.store_snake_string(self.value.decode())

    def load(self, s):
        return s.load_snake_bytes() if self.how == 0 else s.load_snake_string()

    def eq(self, got):
        if self.how == 0:
            return type(got) is bytes and got == self.value
        return type(got) is str and got == self.value.decode()

    def layout(self, used_bits):
        """(bits in this cell, continuation RC or None) following store_snake_bytes' greedy whole-byte split"""
        v = self.value
        avail = (1023 - used_bits) // 8
        if len(v) <= avail:
            return rc.bytes_to_bits(v), None
        head, rest = v[:avail], v[avail:]
        chunks = [rest[i:i + 127] for i in range(0, len(rest), 127)]
        c = None
        for ch in reversed(chunks):
            c = rc.RC(rc.bytes_to_bits(ch), (c,) if c is not None else ())
        return rc.bytes_to_bits(head), c


# ------------------------------------------------------------------------------------------ generation

TEXT = ['', 'a', 'ton', 'Ünïcødé', '日本語', 'x' * 127, 'é' * 63, '\x00\x01', 'very long string, ' * 7]


def gen_field(rng, leaf_cells, max_bits=1023, allow_refs=True):
    k = rng.random()
    if k < 0.16:
        w = rng.choice([1, 2, 7, 8, 9, 31, 32, 33, 63, 64, 65, 255, 256, rng.randint(1, 256)])
        return UInt(w=w, value=gen.some_int(rng, w, False))
    if k < 0.32:
        w = rng.choice([1, 2, 7, 8, 9, 32, 64, 256, 257, rng.randint(1, 257)])
        return Int(w=w, value=gen.some_int(rng, w, True))
    if k < 0.42:
        lb = rng.randint(1, 5)
        return VarUInt(lb=lb, value=var_value(rng, lb, False))
    if k < 0.52:
        lb = rng.randint(1, 5)
        return VarInt(lb=lb, value=var_value(rng, lb, True))
    if k < 0.58:
        return Coins(value=var_value(rng, 4, False))
    if k < 0.62:
        return Bit(value=rng.randint(0, 1), how=rng.randrange(3))
    if k < 0.65:
        return Bool(value=rng.random() < 0.5)
    if k < 0.71:
        return Bits(value=gen.some_bits(rng, rng.choice([0, 1, 5, 40, 300])), how=rng.randrange(3))
    if k < 0.76:
        return Bytes(value=rng.randbytes(rng.choice([0, 1, 2, 16, 32, 100])), how=rng.randrange(2))
    if k < 0.80:
        return String(value=rng.choice(TEXT))
    if k < 0.92:
        return Addr(value=gen_addr(rng), how=rng.randrange(2))
    if not allow_refs:
        return Bit(value=1, how=0)
    if k < 0.95:
        return MaybeRef(cell=rng.choice([None] + leaf_cells))
    if k < 0.97:
        return Ref(cell=rng.choice(leaf_cells))
    w = rng.choice([1, 3, 8, 32, 64])
    m = {rng.getrandbits(w): rng.getrandbits(16) for _ in range(rng.choice([0, 1, 2, 5]))}
    return Dict(w=w, value=m or None)


def var_value(rng, lb, signed):
    """values at every byte-length boundary, including those whose top bit is set"""
    maxbytes = (1 << lb) - 1
    n = rng.randint(0, maxbytes)
    if n == 0:
        return 0
    if signed:
        cands = [(1 << (8 * n - 1)) - 1, -(1 << (8 * n - 1)), (1 << (8 * (n - 1))) if n > 1 else 1, 1 << (8 * n - 9) if n > 1 else 64,
                 (1 << (8 * n - 8)) - 1 if n > 1 else 127, -(1 << (8 * n - 9)) - 1 if n > 1 else -1, 128 << (8 * (n - 2)) if n > 1 else 1,
                 255 << (8 * (n - 2)) if n > 1 else -128, rng.randrange(-(1 << (8 * n - 1)), 1 << (8 * n - 1))]
    else:
        cands = [(1 << (8 * n)) - 1, 1 << (8 * n - 8), 1 << (8 * n - 1), (1 << (8 * n - 1)) - 1, rng.getrandbits(8 * n) or 1]
    return rng.choice(cands)


def gen_addr(rng):
    k = rng.random()
    if k < 0.1:
        return None
    if k < 0.4:
        ln = rng.choice([0, 1, 7, 8, 9, 255, 256, 257, 510, 511, rng.randint(0, 511)])
        return ('ext', rng.getrandbits(ln) if ln else 0, ln)
    wc = rng.choice([-128, -1, 0, 1, 127, rng.randint(-128, 127)])
    h = rng.choice([bytes(32), b'\xff' * 32, rng.randbytes(32)])
    any_ = None
    if rng.random() < 0.35:
        d = rng.choice([1, 2, 8, 29, 30, rng.randint(1, 30)])
        any_ = (d, rng.getrandbits(d))
    return ('std', wc, h, any_)


def field_size(f, used_bits=0):
    if isinstance(f, Snake):
        b, cont = f.layout(used_bits)
        return len(b), (1 if cont is not None else 0)
    return len(f.bits()), f.nrefs

"""DAG workload classes shared by the BoC checks (C03, C04, C05, C19)."""
from . import gen, refcell as rc


def payload_len(root, size=None):
    order = rc.topo_order([root])
    size = size or rc.minbytes(len(order))
    idx = {c.hash: i for i, c in enumerate(order)}
    return sum(len(c.serialize(idx, size)) for c in order), len(order)


def with_payload(target, ncells=40):
    """ordinary DAG of exactly `ncells` cells (heap layout) whose cell_data is exactly `target` bytes, or None"""
    size = rc.minbytes(ncells)
    base = gen.wide(ncells, leaf_bits=lambda i: rc.u(i, 24))
    tot, n = payload_len(base, size)
    deficit = target - tot
    if deficit < 0 or deficit > ncells * 120:
        return None
    extra = [0] * ncells
    i = 0
    while deficit > 0:
        d = min(120, deficit)
        extra[i] += d
        deficit -= d
        i += 1
    root = gen.wide(ncells, leaf_bits=lambda i: rc.u(i, 24) + '10' * (4 * extra[i]))
    tot, n = payload_len(root, size)
    assert tot == target and n == ncells, (tot, target, n, ncells)
    return root


def pruned_vs_full(rng, n=8):
    """an ordinary parent over a Merkle update whose old side is a tree with one subtree pruned and whose new side is the same tree in full: every cell
    on the path to the pruned subtree exists twice - once with level 1, once with level 0 - with the same level-0 hash and different representation hashes"""
    t = gen.rand_dag(rng, n, max_bits=24, fanin=0.1)
    cands = [c for c in gen.all_cells(t) if c.hash != t.hash]
    if not cands:
        t = rc.RC('101', (rc.RC('1', (rc.RC('0011'),)), rc.RC('0')))
        cands = [c for c in gen.all_cells(t) if c.hash != t.hash]
    victim = rng.choice(cands)
    memo = {}

    def rebuild(c):
        if c.hash in memo:
            return memo[c.hash]
        r = rc.make_pruned(c, 1) if c.hash == victim.hash else (rc.RC(c.bits, [rebuild(x) for x in c.refs]) if c.refs else c)
        memo[c.hash] = r
        return r
    tp = rebuild(t)
    assert tp.get_hash(0) == t.hash and tp.hash != t.hash
    return rc.RC('1', (rc.make_merkle_update(tp, t),))


def classes(rng, tier, shard=0, nshards=1, bulk=None):
    """yield (class name, RC root).  Boundary classes are listed by name in the evidence."""
    quick = tier == 'quick'
    out = []
    add = lambda name, f: out.append((name, f))
    add('single-empty', lambda: rc.RC(''))
    add('single-1023', lambda: rc.RC(gen.rand_bits(rng, 1023)))
    add('single-7bits', lambda: rc.RC('1010101'))
    for n in ([2, 5, 17, 60, 150, 300] if quick else [2, 3, 5, 9, 17, 33, 60, 100, 150, 300, 600, 1500, 4000]):
        add(f'rand-dag-{n}', lambda n=n: gen.rand_dag(rng, n, fanin=rng.choice([0.2, 0.5, 0.9])))
    for i in range(4 if quick else 30):
        add(f'exotic-tree-{i}', lambda: exotic_root(rng))
    add('ladder-2x20', lambda: gen.ladder(20, 2))
    add('ladder-4x12', lambda: gen.ladder(12, 4))
    add('diamond-15', lambda: gen.diamond(15))
    add('kary-4x3', lambda: gen.kary(4, 3))
    add('same-child-x4', lambda: rc.RC('1', (rc.RC('0'),) * 4))
    for i in range(2 if quick else 12):
        add(f'pruned-vs-full-{i}', lambda: pruned_vs_full(rng, rng.choice([3, 8, 20])))
    # more than 255 cells (2-byte reference indices) in which the inner cells are completely full: 1023 bits and 4 references
    add('full-cells-300', lambda: gen.wide(300, leaf_bits=lambda i: rc.u(i, 24) + ('1' * 999 if i % 3 == 0 else '01' * 480 if i % 3 == 1 else '')))
    # 2-byte header fields with the top bit set: total cell data between 2^15 and 2^16 bytes
    add('payload-33000', lambda: with_payload(33000, 300))
    add('chain-300', lambda: gen.chain(300))
    for n in (255, 256, 257):
        add(f'cells-{n}', lambda n=n: gen.wide(n))
    for t in (127, 128, 255, 256, 257):
        add(f'payload-{t}', lambda t=t: with_payload(t, 12))
    if not quick:
        add('chain-1023', lambda: gen.chain(1023))
        add('chain-1023-wide', lambda: gen.chain(1023, pos=2, width=4))
        for t in (32767, 32768, 65535, 65536, 65537):
            add(f'payload-{t}', lambda t=t: with_payload(t, 700))
        for n in (65535, 65536, 65537):
            add(f'cells-{n}', lambda n=n: gen.wide(n))
        add('cells-130000-payload>=2^24?', lambda: gen.wide(130000, leaf_bits=lambda i: rc.u(i, 24) + '1' * 990))
    for i, (name, f) in enumerate(out):
        if i % nshards == shard:
            r = f()
            if r is not None:
                yield name, r
    nb = (bulk if bulk is not None else (150 if quick else 6000)) // nshards + 1
    for i in range(nb):
        k = rng.random()
        if k < 0.35:
            yield 'bulk-exotic', exotic_root(rng)
        elif k < 0.5:
            yield 'bulk-tiny', gen.rand_dag(rng, rng.randint(1, 4), max_bits=rng.choice([0, 8, 1000]), pool_leafs=1)
        else:
            yield 'bulk-dag', gen.rand_dag(rng, rng.choice([3, 6, 12, 25, 50, 90]), max_bits=rng.choice([8, 40, 300, 1000]),
                                           fanin=rng.random())


def exotic_root(rng):
    """exotic tree wrapped so that the root has level 0 (BoC roots of any level are legal, but keep both kinds)"""
    t = gen.exotic_tree(rng, budget=rng.choice([4, 10, 25]), max_level=rng.choice([0, 1, 2, 3]))
    return t

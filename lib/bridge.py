"""Conversions between reference cells (lib.refcell.RC) and the library's objects, through every
construction route, plus the M-INV hook on Cell.__init__ (invariant at constructor exit)."""
import os
import sys

from bitarray import bitarray

from . import refcell as rc
from . import mon

ROUTES = ('builder', 'direct_tvm', 'direct_plain', 'boc')


def lib():
    import pytoniq_core.boc as B
    return B


def tvm_bits(bits: str):
    from pytoniq_core.boc.tvm_bitarray import TvmBitarray
    t = TvmBitarray(1023)
    t.extend(bits)
    return t


def bits_of(obj) -> str:
    return obj.bits.to01()


def to_lib(r: rc.RC, route='builder', memo=None):
    """build the library cell for reference cell r (bottom-up, shared children shared)"""
    B = lib()
    if route == 'boc':
        return B.Cell.one_from_boc(rc.encode_boc([r]))
    if route == 'boc-hashes':
        # foreign encoding in which about two thirds of the cells (ordinary and exotic alike) carry the optional stored hashes/depths;
        # only for level masks 0, 1, 3, 7 (TON's own writer and reader disagree on the layout for masks with holes)
        return B.Cell.one_from_boc(rc.encode_boc([r], with_hashes=lambda c: c.mask in (0, 1, 3, 7) and c.hash[0] % 3 != 0, has_idx=bool(r.hash[1] & 1),
                                                 has_crc=bool(r.hash[1] & 2)))
    if route == 'builder-fresh':
        return _to_lib_fresh(r)
    memo = {} if memo is None else memo
    stack = [(r, False)]
    while stack:
        c, ready = stack.pop()
        if c.hash in memo:
            continue
        if not ready:
            stack.append((c, True))
            for ch in c.refs:
                if ch.hash not in memo:
                    stack.append((ch, False))
            continue
        refs = [memo[ch.hash] for ch in c.refs]
        if route == 'builder':
            b = B.Builder(type_=c.type)
            b.store_bits(c.bits)
            for x in refs:
                b.store_ref(x)
            memo[c.hash] = b.end_cell()
        elif route == 'direct_tvm':
            memo[c.hash] = B.Cell(tvm_bits(c.bits), refs, c.type)
        elif route == 'direct_plain':
            memo[c.hash] = B.Cell(bitarray(c.bits), refs, c.type)
        else:
            raise ValueError(route)
    return memo[r.hash]


def _to_lib_fresh(r: rc.RC, budget=3000):
    """like to_lib(..., 'builder') but every occurrence of a shared sub-cell is a distinct Python object with equal content (what a user gets who
    builds the same cell twice); falls back to sharing once `budget` cells have been constructed (ladders unfold exponentially)"""
    B = lib()
    memo = {}
    built = [0]
    import sys as _sys
    old = _sys.getrecursionlimit()
    _sys.setrecursionlimit(max(old, 5000))

    def go(c):
        if built[0] >= budget and c.hash in memo:
            return memo[c.hash]
        refs = [go(x) for x in c.refs]
        b = B.Builder(type_=c.type)
        b.store_bits(c.bits)
        for x in refs:
            b.store_ref(x)
        built[0] += 1
        memo[c.hash] = b.end_cell()
        return memo[c.hash]
    try:
        return go(r)
    finally:
        _sys.setrecursionlimit(old)


def from_lib(cell, memo=None, validate=False):
    """reference cell for a library cell, read through the public attributes bits/refs/type_ (by structure)"""
    memo = {} if memo is None else memo
    stack = [(cell, False)]
    while stack:
        c, ready = stack.pop()
        if id(c) in memo:
            continue
        if not ready:
            stack.append((c, True))
            for ch in c.refs:
                if id(ch) not in memo:
                    stack.append((ch, False))
            continue
        memo[id(c)] = rc.RC(c.bits.to01(), [memo[id(ch)] for ch in c.refs], c.type_, validate=validate)
    return memo[id(cell)]


def struct_lib(cell):
    """structure of a library DAG keyed by library hash: {hash: (type, bits, child hashes)}"""
    out, stack, seen = {}, [cell], set()
    while stack:
        c = stack.pop()
        if id(c) in seen:
            continue
        seen.add(id(c))
        out[c.hash] = (c.type_, c.bits.to01(), tuple(x.hash for x in c.refs))
        stack.extend(c.refs)
    return out


# ------------------------------------------------------------------------------------------
class CellInvariant:
    """M-INV: runs at the exit of Cell.__init__ for every cell any library path constructs."""

    def __init__(self, R, full_levels=True):
        self.R = R
        self.patch = mon.Patch()
        self.full = full_levels
        self.cellfile = None
        self.enabled = True
        self.retain = 0            # keep up to this many (cell, reference) pairs for revalidate()
        self.retained = []

    def install(self):
        from pytoniq_core.boc import cell as cellmod
        Cell = cellmod.Cell
        self.cellfile = os.path.realpath(cellmod.__file__)
        orig = Cell.__dict__['__init__']
        inv = self

        def __init__(self_, bits, refs, cell_type=-1):
            if not inv.enabled:
                return orig(self_, bits, refs, cell_type)
            try:
                snap_bits = bits.to01()
                if not isinstance(refs, (list, tuple)):
                    # a one-shot iterable (generator, iterator, map): look at it once and hand the library a one-shot iterable over the same objects
                    snap_refs = list(refs)
                    refs = iter(snap_refs)
                else:
                    snap_refs = list(refs)
            except Exception:
                snap_bits, snap_refs = None, None
            orig(self_, bits, refs, cell_type)
            inv.after(self_, snap_bits, snap_refs, cell_type)
        self.patch.set(Cell, '__init__', __init__)
        return self

    def uninstall(self):
        self.patch.undo()

    def revalidate(self, why='end'):
        """invariant at a quiescent point: every retained cell still holds the data it was constructed with and still reports the
        hash of that data (a cell that shares a buffer with a builder/slice, or a stale cache, shows up here)"""
        R = self.R
        for cell, ref, route in self.retained:
            R.counters['oracle_evaluations'] += 1
            R.count('inv_revalidated')
            now = cell.bits.to01()
            W = {'bits_at_construction': ref.bits, 'bits_now': now, 'route': route, 'when': why}
            if now != ref.bits or len(cell.refs) != len(ref.refs):
                R.violation('inv-cell-data-changed-after-construction', f'a cell built via {route} held {len(ref.bits)} bits at construction and '
                            f'{len(now)} bits at {why}: its data changed although cells are immutable', W)
            elif cell.hash != ref.hash:
                R.violation('inv-cell-hash-changed-after-construction', f'a cell built via {route} reports another hash at {why}', W)

    def route(self):
        f = sys._getframe(3)
        return f'{os.path.basename(f.f_code.co_filename)}:{f.f_code.co_name}'

    def after(self, cell, snap_bits, snap_refs, cell_type):
        R = self.R
        R.count('inv_cells')
        route = self.route()
        R.cover('inv_routes', route)
        if snap_bits is None:
            return
        W = lambda: {'bits': snap_bits, 'type': cell_type, 'refs': [x.hash.hex() for x in snap_refs], 'route': route}
        # the constructor must not change what the caller handed in, nor what the cell now holds
        now = cell.bits.to01()
        if now != snap_bits or len(cell.refs) != len(snap_refs) or any(a is not b for a, b in zip(cell.refs, snap_refs)):
            R.violation('inv-constructor-mutated-input', f'Cell.__init__ changed its data: {len(snap_bits)} bits in, {len(now)} bits after', W())
        kids = []
        for x in snap_refs:
            k = getattr(x, '_verif_rc', None)
            if k is None:
                try:
                    k = from_lib(x)
                except rc.RefError:
                    cell._verif_rc = None
                    R.count('inv_unmodelled')
                    return
                x._verif_rc = k
            kids.append(k)
        if cell_type == -1 and (len(snap_bits) > 1023 or len(snap_refs) > 4):
            R.violation('inv-capacity', f'cell constructed with {len(snap_bits)} bits / {len(snap_refs)} refs', W())
            cell._verif_rc = None
            return
        try:
            ref = rc.RC(snap_bits, kids, cell_type, validate=False)
        except rc.RefError as e:
            if str(e) == 'depth':
                R.violation('inv-depth', 'cell deeper than 1023 constructed', W())
            else:
                R.count('inv_unmodelled')
            cell._verif_rc = None
            return
        cell._verif_rc = ref
        if len(self.retained) < self.retain:
            self.retained.append((cell, ref, route))
        R.counters['oracle_evaluations'] += 1
        R.cover('inv_types', cell_type)
        R.cover('inv_masks', ref.mask)
        if cell.level_mask.mask != ref.mask:
            R.violation(f'inv-mask-type{cell_type}', f'level mask {cell.level_mask.mask} != spec {ref.mask}', W())
            return
        if cell.hash != ref.hash:
            R.violation(f'inv-hash-type{cell_type}-mask{ref.mask}', f'hash {cell.hash.hex()} != spec {ref.hash.hex()}', W())
        # the explicitly recomputed representation hash (SHA-256 of the standard representation, children entering one level up under Merkle cells) is the hash
        try:
            rh = cell.calculate_representation_hash()
        except Exception as e:
            rh = e
        R.count('inv_repr_hash_recomputed')
        if rh != ref.hash:
            R.violation(f'inv-repr-hash-differs-type{cell_type}-mask{ref.mask}', f'calculate_representation_hash() gives {rh.hex() if isinstance(rh, bytes) else rh!r}, the hash is {ref.hash.hex()}', W())
        for l in range(4):
            try:
                h, d = cell.get_hash(l), cell.get_depth(l)
            except Exception as e:
                R.violation(f'inv-level-raises-type{cell_type}-mask{ref.mask}-l{l}', f'get_hash/get_depth({l}) raised {e!r}', W())
                continue
            if h != ref.get_hash(l):
                R.violation(f'inv-hash-l{l}-type{cell_type}-mask{ref.mask}', f'get_hash({l}) differs from spec', W())
            if d != ref.get_depth(l):
                R.violation(f'inv-depth-l{l}-type{cell_type}-mask{ref.mask}', f'get_depth({l})={d} != spec {ref.get_depth(l)}', W())


def damaged_before_valid(R, rng, cell_rc, parse, k=None):
    """Feed `parse` (a function of a library cell) one to three damaged versions of an ordinary reference cell - cut short, a reference missing, leading tag bits
    inverted.  What the library does with them is NOT judged; the point is that the valid parse the caller makes next must not depend on them (guards, counters
    and caches left behind by a rejected parse)."""
    from lib import mon, refcell as rc
    for _ in range(k or rng.randint(1, 3)):
        bits, refs = cell_rc.bits, list(cell_rc.refs)
        how = rng.choice(['cut', 'cut', 'ref', 'tag'])
        if how == 'cut' and bits:
            bits = bits[:rng.randrange(len(bits))]
        elif how == 'ref' and refs:
            refs = refs[:-1]
        else:
            n = min(len(bits), rng.randint(1, 6))
            bits = ''.join('1' if c == '0' else '0' for c in bits[:n]) + bits[n:]
        st0, bad = mon.call(lambda: to_lib(rc.RC(bits, refs)))
        if st0 == 'ok':
            st0, _ = mon.call(parse, bad)
            R.cover('damaged_parse_outcomes', f'{how}:{st0}')
            R.count('damaged_parses_before_valid')

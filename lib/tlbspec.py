"""R3 (declarative part): a transcription of the covered constructors of the bundled block.tlb as data, with one encoder and one
generator derived from each description.  Type forms:

  ('u', n) ('i', n) ('le', maxval) ('bool',) ('bits', nbytes) ('grams',) ('varu', n) ('cc',) ('addr',) ('cell',) ('msg',)
  ('maybe', T) ('ref', T) ('t', Name) ('hme', width, T) ('hm', width, T) ('hmaug', width, X, Y) ('hmauge', width, X, Y)
  ('seq', [(field, T), ...])   anonymous ^[ ... ] groups are written ('ref', ('seq', ...))

TYPES[Name] = [(constructor, tag bit string, [(field, T), ...]), ...].  Values are dicts keyed by the schema's field names, '_' = constructor."""
from . import dictref, gen, refcell as rc, tlbref as T

U, I, B = (lambda n: ('u', n)), (lambda n: ('i', n)), (lambda n: ('bits', n))
BOOL, GRAMS, CC, ADDR, CELL, MSG = ('bool',), ('grams',), ('cc',), ('addr',), ('cell',), ('msg',)
t = lambda n: ('t', n)
maybe = lambda x: ('maybe', x)
ref = lambda x: ('ref', x)


def h(hexs, nbits=None):
    n = nbits or 4 * len(hexs)
    return bin(int(hexs, 16))[2:].zfill(n)


STORAGE_USED_SHORT = [('cells', ('varu', 7)), ('bits', ('varu', 7))]

TYPES = {
    'AccStatusChange': [('acst_unchanged', '0', []), ('acst_frozen', '10', []), ('acst_deleted', '11', [])],
    'ComputeSkipReason': [('cskip_no_state', '00', []), ('cskip_bad_state', '01', []), ('cskip_no_gas', '10', []), ('cskip_suspended', '110', [])],
    'AccountStatus': [('acc_state_uninit', '00', []), ('acc_state_frozen', '01', []), ('acc_state_active', '10', []), ('acc_state_nonexist', '11', [])],
    'StorageUsedShort': [('storage_used_short', '', STORAGE_USED_SHORT)],
    'TrStoragePhase': [('tr_phase_storage', '', [('storage_fees_collected', GRAMS), ('storage_fees_due', maybe(GRAMS)), ('status_change', t('AccStatusChange'))])],
    'TrCreditPhase': [('tr_phase_credit', '', [('due_fees_collected', maybe(GRAMS)), ('credit', CC)])],
    'TrComputePhase': [
        ('tr_phase_compute_skipped', '0', [('reason', t('ComputeSkipReason'))]),
        ('tr_phase_compute_vm', '1', [('success', BOOL), ('msg_state_used', BOOL), ('account_activated', BOOL), ('gas_fees', GRAMS),
                                      ('_ref', ref(('seq', [('gas_used', ('varu', 7)), ('gas_limit', ('varu', 7)), ('gas_credit', maybe(('varu', 3))), ('mode', I(8)), ('exit_code', I(32)),
                                                            ('exit_arg', maybe(I(32))), ('vm_steps', U(32)), ('vm_init_state_hash', B(32)), ('vm_final_state_hash', B(32))])))])],
    'TrActionPhase': [('tr_phase_action', '', [('success', BOOL), ('valid', BOOL), ('no_funds', BOOL), ('status_change', t('AccStatusChange')), ('total_fwd_fees', maybe(GRAMS)),
                                               ('total_action_fees', maybe(GRAMS)), ('result_code', I(32)), ('result_arg', maybe(I(32))), ('tot_actions', U(16)), ('spec_actions', U(16)),
                                               ('skipped_actions', U(16)), ('msgs_created', U(16)), ('action_list_hash', B(32)), ('tot_msg_size', t('StorageUsedShort'))])],
    'TrBouncePhase': [('tr_phase_bounce_negfunds', '00', []),
                      ('tr_phase_bounce_nofunds', '01', [('msg_size', t('StorageUsedShort')), ('req_fwd_fees', GRAMS)]),
                      ('tr_phase_bounce_ok', '1', [('msg_size', t('StorageUsedShort')), ('msg_fees', GRAMS), ('fwd_fees', GRAMS)])],
    'SplitMergeInfo': [('split_merge_info', '', [('cur_shard_pfx_len', U(6)), ('acc_split_depth', U(6)), ('this_addr', B(32)), ('sibling_addr', B(32))])],
    'TransactionDescr': [
        ('trans_ord', '0000', [('credit_first', BOOL), ('storage_ph', maybe(t('TrStoragePhase'))), ('credit_ph', maybe(t('TrCreditPhase'))), ('compute_ph', t('TrComputePhase')),
                               ('action', maybe(ref(t('TrActionPhase')))), ('aborted', BOOL), ('bounce', maybe(t('TrBouncePhase'))), ('destroyed', BOOL)]),
        ('trans_storage', '0001', [('storage_ph', t('TrStoragePhase'))]),
        ('trans_tick_tock', '001', [('is_tock', BOOL), ('storage_ph', t('TrStoragePhase')), ('compute_ph', t('TrComputePhase')), ('action', maybe(ref(t('TrActionPhase')))),
                                    ('aborted', BOOL), ('destroyed', BOOL)]),
        ('trans_split_prepare', '0100', [('split_info', t('SplitMergeInfo')), ('storage_ph', maybe(t('TrStoragePhase'))), ('compute_ph', t('TrComputePhase')),
                                         ('action', maybe(ref(t('TrActionPhase')))), ('aborted', BOOL), ('destroyed', BOOL)]),
        ('trans_split_install', '0101', [('split_info', t('SplitMergeInfo')), ('prepare_transaction', ref(t('Transaction'))), ('installed', BOOL)]),
        ('trans_merge_prepare', '0110', [('split_info', t('SplitMergeInfo')), ('storage_ph', t('TrStoragePhase')), ('aborted', BOOL)]),
        ('trans_merge_install', '0111', [('split_info', t('SplitMergeInfo')), ('prepare_transaction', ref(t('Transaction'))), ('storage_ph', maybe(t('TrStoragePhase'))),
                                         ('credit_ph', maybe(t('TrCreditPhase'))), ('compute_ph', t('TrComputePhase')), ('action', maybe(ref(t('TrActionPhase')))),
                                         ('aborted', BOOL), ('destroyed', BOOL)])],
    'HashUpdate': [('update_hashes', h('72'), [('old_hash', B(32)), ('new_hash', B(32))])],
    'Transaction': [('transaction', '0111', [('account_addr', B(32)), ('lt', U(64)), ('prev_trans_hash', B(32)), ('prev_trans_lt', U(64)), ('now', U(32)), ('outmsg_cnt', U(15)),
                                             ('orig_status', t('AccountStatus')), ('end_status', t('AccountStatus')),
                                             ('_ref', ref(('seq', [('in_msg', maybe(ref(MSG))), ('out_msgs', ('hme', 15, ref(MSG)))]))),
                                             ('total_fees', CC), ('state_update', ref(t('HashUpdate'))), ('description', ref(t('TransactionDescr')))])],
    'IntermediateAddress': [('interm_addr_regular', '0', [('use_dest_bits', ('le', 96))]),
                            ('interm_addr_simple', '10', [('workchain_id', I(8)), ('addr_pfx', U(64))]),
                            ('interm_addr_ext', '11', [('workchain_id', I(32)), ('addr_pfx', U(64))])],
    'MsgEnvelope': [('msg_envelope', h('4'), [('cur_addr', t('IntermediateAddress')), ('next_addr', t('IntermediateAddress')), ('fwd_fee_remaining', GRAMS), ('msg', ref(MSG))])],
    'InMsg': [
        ('msg_import_ext', '000', [('msg', ref(MSG)), ('transaction', ref(t('Transaction')))]),
        ('msg_import_ihr', '010', [('msg', ref(MSG)), ('transaction', ref(t('Transaction'))), ('ihr_fee', GRAMS), ('proof_created', CELL)]),
        ('msg_import_imm', '011', [('in_msg', ref(t('MsgEnvelope'))), ('transaction', ref(t('Transaction'))), ('fwd_fee', GRAMS)]),
        ('msg_import_fin', '100', [('in_msg', ref(t('MsgEnvelope'))), ('transaction', ref(t('Transaction'))), ('fwd_fee', GRAMS)]),
        ('msg_import_tr', '101', [('in_msg', ref(t('MsgEnvelope'))), ('out_msg', ref(t('MsgEnvelope'))), ('transit_fee', GRAMS)]),
        ('msg_discard_fin', '110', [('in_msg', ref(t('MsgEnvelope'))), ('transaction_id', U(64)), ('fwd_fee', GRAMS)]),
        ('msg_discard_tr', '111', [('in_msg', ref(t('MsgEnvelope'))), ('transaction_id', U(64)), ('fwd_fee', GRAMS), ('proof_delivered', CELL)])],
    'OutMsg': [
        ('msg_export_ext', '000', [('msg', ref(MSG)), ('transaction', ref(t('Transaction')))]),
        ('msg_export_imm', '010', [('out_msg', ref(t('MsgEnvelope'))), ('transaction', ref(t('Transaction'))), ('reimport', ref(t('InMsg')))]),
        ('msg_export_new', '001', [('out_msg', ref(t('MsgEnvelope'))), ('transaction', ref(t('Transaction')))]),
        ('msg_export_tr', '011', [('out_msg', ref(t('MsgEnvelope'))), ('imported', ref(t('InMsg')))]),
        ('msg_export_deq', '1100', [('out_msg', ref(t('MsgEnvelope'))), ('import_block_lt', U(63))]),
        ('msg_export_deq_short', '1101', [('msg_env_hash', B(32)), ('next_workchain', I(32)), ('next_addr_pfx', U(64)), ('import_block_lt', U(64))]),
        ('msg_export_tr_req', '111', [('out_msg', ref(t('MsgEnvelope'))), ('imported', ref(t('InMsg')))]),
        ('msg_export_deq_imm', '100', [('out_msg', ref(t('MsgEnvelope'))), ('reimport', ref(t('InMsg')))])],
    'ImportFees': [('import_fees', '', [('fees_collected', GRAMS), ('value_imported', CC)])],
    # ---- accounts
    'StorageUsed': [('storage_used', '', [('cells', ('varu', 7)), ('bits', ('varu', 7)), ('public_cells', ('varu', 7))])],
    'StorageInfo': [('storage_info', '', [('used', t('StorageUsed')), ('last_paid', U(32)), ('due_payment', maybe(GRAMS))])],
    'StateInit': [('state_init', '', [('split_depth', maybe(U(5))), ('special', maybe(t('TickTock'))), ('code', maybe(CELL)), ('data', maybe(CELL)), ('library', maybe(CELL))])],
    'TickTock': [('tick_tock', '', [('tick', BOOL), ('tock', BOOL)])],
    'AccountState': [('account_uninit', '00', []), ('account_active', '1', [('state_init', t('StateInit'))]), ('account_frozen', '01', [('state_hash', B(32))])],
    'AccountStorage': [('account_storage', '', [('last_trans_lt', U(64)), ('balance', CC), ('state', t('AccountState'))])],
    'Account': [('account_none', '0', []), ('account', '1', [('addr', ADDR), ('storage_stat', t('StorageInfo')), ('storage', t('AccountStorage'))])],
    'ShardAccount': [('account_descr', '', [('account', ref(t('Account'))), ('last_trans_hash', B(32)), ('last_trans_lt', U(64))])],
    'AccountBlock': [('acc_trans', h('5'), [('account_addr', B(32)), ('transactions', ('hmaug', 64, ref(t('Transaction')), CC)), ('state_update', ref(t('HashUpdate')))])],
    # ---- block header & co
    'ShardIdent': [('shard_ident', '00', [('shard_pfx_bits', ('le', 60)), ('workchain_id', I(32)), ('shard_prefix', U(64))])],
    'ExtBlkRef': [('ext_blk_ref', '', [('end_lt', U(64)), ('seq_no', U(32)), ('root_hash', B(32)), ('file_hash', B(32))])],
    'BlkMasterInfo': [('master_info', '', [('master', t('ExtBlkRef'))])],
    'GlobalVersion': [('capabilities', h('c4'), [('version', U(32)), ('capabilities', U(64))])],
    'ValueFlow': [
        ('value_flow', h('b8e48dfb'), [('_r1', ref(('seq', [('from_prev_blk', CC), ('to_next_blk', CC), ('imported', CC), ('exported', CC)]))), ('fees_collected', CC),
                                      ('_r2', ref(('seq', [('fees_imported', CC), ('recovered', CC), ('created', CC), ('minted', CC)])))]),
        ('value_flow_v2', h('3ebf98b7'), [('_r1', ref(('seq', [('from_prev_blk', CC), ('to_next_blk', CC), ('imported', CC), ('exported', CC)]))), ('fees_collected', CC), ('burned', CC),
                                         ('_r2', ref(('seq', [('fees_imported', CC), ('recovered', CC), ('created', CC), ('minted', CC)])))])],
    'FutureSplitMerge': [('fsm_none', '0', []), ('fsm_split', '10', [('split_utime', U(32)), ('interval', U(32))]), ('fsm_merge', '11', [('merge_utime', U(32)), ('interval', U(32))])],
    'ShardDescr': [
        ('shard_descr', h('b'), [('seq_no', U(32)), ('reg_mc_seqno', U(32)), ('start_lt', U(64)), ('end_lt', U(64)), ('root_hash', B(32)), ('file_hash', B(32)), ('before_split', BOOL),
                                 ('before_merge', BOOL), ('want_split', BOOL), ('want_merge', BOOL), ('nx_cc_updated', BOOL), ('flags', ('const', 3, 0)), ('next_catchain_seqno', U(32)),
                                 ('next_validator_shard', U(64)), ('min_ref_mc_seqno', U(32)), ('gen_utime', U(32)), ('split_merge_at', t('FutureSplitMerge')),
                                 ('fees_collected', CC), ('funds_created', CC)]),
        ('shard_descr_new', h('a'), [('seq_no', U(32)), ('reg_mc_seqno', U(32)), ('start_lt', U(64)), ('end_lt', U(64)), ('root_hash', B(32)), ('file_hash', B(32)), ('before_split', BOOL),
                                     ('before_merge', BOOL), ('want_split', BOOL), ('want_merge', BOOL), ('nx_cc_updated', BOOL), ('flags', ('const', 3, 0)), ('next_catchain_seqno', U(32)),
                                     ('next_validator_shard', U(64)), ('min_ref_mc_seqno', U(32)), ('gen_utime', U(32)), ('split_merge_at', t('FutureSplitMerge')),
                                     ('_r', ref(('seq', [('fees_collected', CC), ('funds_created', CC)])))])],
    # ---- validators / catchain
    'SigPubKey': [('ed25519_pubkey', h('8e81278a'), [('pubkey', B(32))])],
    'ValidatorDescr': [('validator', h('53'), [('public_key', t('SigPubKey')), ('weight', U(64))]),
                       ('validator_addr', h('73'), [('public_key', t('SigPubKey')), ('weight', U(64)), ('adnl_addr', B(32))])],
    'ValidatorSet': [('validators', h('11'), [('utime_since', U(32)), ('utime_until', U(32)), ('total', U(16)), ('main', ('main16',)), ('list', ('hm', 16, t('ValidatorDescr')))]),
                     ('validators_ext', h('12'), [('utime_since', U(32)), ('utime_until', U(32)), ('total', U(16)), ('main', ('main16',)), ('total_weight', U(64)),
                                                  ('list', ('hme', 16, t('ValidatorDescr')))])],
    'CatchainConfig': [('catchain_config', h('c1'), [('mc_catchain_lifetime', U(32)), ('shard_catchain_lifetime', U(32)), ('shard_validators_lifetime', U(32)), ('shard_validators_num', U(32))]),
                       ('catchain_config_new', h('c2'), [('flags', ('const', 7, 0)), ('shuffle_mc_validators', BOOL), ('mc_catchain_lifetime', U(32)), ('shard_catchain_lifetime', U(32)),
                                                         ('shard_validators_lifetime', U(32)), ('shard_validators_num', U(32))])],
    # ---- masterchain state extra pieces
    'ValidatorInfo': [('validator_info', '', [('validator_list_hash_short', U(32)), ('catchain_seqno', U(32)), ('nx_cc_updated', BOOL)])],
    'KeyExtBlkRef': [('key_ext_blk_ref', '', [('key', BOOL), ('blk_ref', t('ExtBlkRef'))])],
    'KeyMaxLt': [('key_max_lt', '', [('key', BOOL), ('max_end_lt', U(64))])],
    'Counters': [('counters', '', [('last_updated', U(32)), ('total', U(64)), ('cnt2048', U(64)), ('cnt65536', U(64))])],
    'CreatorStats': [('creator_info', h('4'), [('mc_blocks', t('Counters')), ('shard_blocks', t('Counters'))])],
    # ---- shard state: accounts:^ShardAccounts is a HashmapAugE 256 ShardAccount DepthBalanceInfo; libraries only in the empty form; custom (McStateExtra) absent
    'DepthBalanceInfo': [('depth_balance', '', [('split_depth', ('le', 30)), ('balance', CC)])],
    'ShardStateUnsplit': [('shard_state', h('9023afe2'), [
        ('global_id', I(32)), ('shard_id', t('ShardIdent')), ('seq_no', U(32)), ('vert_seq_no', U(32)), ('gen_utime', U(32)), ('gen_lt', U(64)), ('min_ref_mc_seqno', U(32)),
        ('out_msg_queue_info', CELL), ('before_split', BOOL), ('accounts', ref(('hmauge', 256, t('ShardAccount'), t('DepthBalanceInfo')))),
        ('_r', ref(('seq', [('overload_history', U(64)), ('underload_history', U(64)), ('total_balance', CC), ('total_validator_fees', CC), ('libraries', ('const', 1, 0)),
                            ('master_ref', maybe(t('BlkMasterInfo')))]))),
        ('custom', maybe(CELL))])],
    # ---- block extra: InMsgDescr / OutMsgDescr / ShardAccountBlocks are HashmapAugE 256 dictionaries behind references
    'BlockExtra': [('block_extra', h('4a33f6fd'), [('in_msg_descr', ref(('hmauge', 256, t('InMsg'), t('ImportFees')))),
                                                 ('out_msg_descr', ref(('hmauge', 256, t('OutMsg'), CC))),
                                                 ('account_blocks', ref(('hmauge', 256, t('AccountBlock'), CC))),
                                                 ('rand_seed', B(32)), ('created_by', B(32)), ('custom', maybe(CELL))])],
}


# ----------------------------------------------------------------------------------------------- encoder
def enc(w, ty, v):
    k = ty[0]
    if k == 'u':
        w.u(v, ty[1])
    elif k == 'i':
        w.i(v, ty[1])
    elif k == 'le':
        w.u(v, ty[1].bit_length())
    elif k == 'const':
        w.u(ty[2], ty[1])
    elif k == 'main16':
        w.u(v, 16)
    elif k == 'bool':
        w.bool(v)
    elif k == 'bits':
        w.bytes(v)
    elif k == 'grams':
        T.enc_grams(w, v)
    elif k == 'varu':
        T.enc_var_uint(w, v, ty[1])
    elif k == 'cc':
        T.enc_currency_collection(w, v)
    elif k == 'addr':
        T.enc_msg_address_int(w, v)
    elif k == 'cell':
        w.ref(v)
    elif k == 'msg':
        T.enc_message(w, v['msg'], *v['placement'])
    elif k == 'maybe':
        if v is None:
            w.u(0, 1)
        else:
            w.u(1, 1)
            enc(w, ty[1], v)
    elif k == 'ref':
        if ty[1] == CELL:
            w.ref(v)
        else:
            w.sub(enc, ty[1], v)
    elif k == 'seq':
        for f, ft in ty[1]:
            enc(w, ft, v[f])
    elif k == 't':
        ctors = TYPES[ty[1]]
        c = next(c for c in ctors if c[0] == v['_'])
        w.bits(c[1])
        for f, ft in c[2]:
            enc(w, ft, v[f] if not f.startswith('_') else v)
    elif k == 'hme':
        T.enc_hashmap_e(w, v, ty[1], lambda vw, x: enc(vw, ty[2], x))
    elif k == 'hm':
        root = T.hashmap(v, ty[1], lambda vw, x: enc(vw, ty[2], x))
        w.bits(root.bits)
        for r in root.refs:
            w.ref(r)
    elif k == 'hmaug':
        # HashmapAug width X Y, inline; values v = {'items': {key: x}, 'extra_of': fn(x)->y, 'combine': fn(y,y)->y}
        items = {}
        xs = {}
        for key, x in v['items'].items():
            vw = T.W()
            enc(vw, ty[2], x)
            kb = dictref.u(key, ty[1])
            items[kb] = (''.join(vw.b), vw.refs)
            xs[(''.join(vw.b), tuple(r.hash for r in vw.refs))] = v['extra_of'](x)

        def xbits(e):
            xw = T.W()
            enc(xw, ty[3], e)
            return ''.join(xw.b)
        root = dictref.encode(items, ty[1], aug=(lambda bv: xs[(bv[0], tuple(r.hash for r in bv[1]))], v['combine'], xbits))
        w.bits(root.bits)
        for r in root.refs:
            w.ref(r)
    elif k == 'hmauge':
        # HashmapAugE width X Y behind a bit: v = {'items': {key: x}, 'extra_of': fn(x)->y, 'combine': fn(y,y)->y, 'empty_extra': y}
        T.enc_hashmap_aug_e(w, v['items'], ty[1], lambda vw, x: enc(vw, ty[2], x), v['extra_of'], v['combine'], lambda xw, e: enc(xw, ty[3], e), v['empty_extra'])
    else:
        raise ValueError(ty)


# ----------------------------------------------------------------------------------------------- decoder (mirror of enc, over tlbref.Rd)
class _Node:
    __slots__ = ('bits', 'refs')

    def __init__(self, bits, refs):
        self.bits, self.refs = bits, refs


def _aug_decoder(yty):
    def f(bits, pos, refs, ri):
        rd = T.Rd(_Node(bits, refs))
        rd.p, rd.r = pos, ri
        x = dec(rd, yty)
        return x, rd.p, rd.r
    return f


def dec(r, ty):
    """value of type form `ty` read from reader r (tlbref.Rd); raises RefError when the bits do not denote a value of the type"""
    k = ty[0]
    if k == 'u':
        return r.u(ty[1])
    if k == 'i':
        return r.i(ty[1])
    if k == 'le':
        v = r.u(ty[1].bit_length())
        if v > ty[1]:
            raise rc.RefError(f'#<= {ty[1]} field holds {v}')
        return v
    if k == 'const':
        v = r.u(ty[1])
        if v != ty[2]:
            raise rc.RefError(f'constant field holds {v}, schema says {ty[2]}')
        return v
    if k == 'main16':
        return r.u(16)
    if k == 'bool':
        return bool(r.u(1))
    if k == 'bits':
        return r.bytes(ty[1])
    if k == 'grams':
        return T.dec_var_uint(r, 16)
    if k == 'varu':
        return T.dec_var_uint(r, ty[1])
    if k == 'cc':
        return T.dec_currency_collection(r)
    if k == 'addr':
        return T.dec_msg_address(r)
    if k == 'cell':
        return r.ref()
    if k == 'msg':
        m, placement = T.dec_message(r.rest())
        r.p, r.r = len(r.c.bits), len(r.c.refs)
        return {'msg': m, 'placement': placement}
    if k == 'maybe':
        return dec(r, ty[1]) if r.u(1) else None
    if k == 'ref':
        if ty[1] == CELL:
            return r.ref()
        sub = T.Rd(r.ref())
        v = dec(sub, ty[1])
        if sub.left() != (0, 0):
            raise rc.RefError(f'{sub.left()} bits/refs left in a referenced {ty[1][0]} {ty[1][1] if len(ty[1]) > 1 and isinstance(ty[1][1], str) else ""}')
        return v
    if k == 'seq':
        return {f: dec(r, ft) for f, ft in ty[1]}
    if k == 't':
        ctors = TYPES[ty[1]]
        for c in sorted(ctors, key=lambda c: -len(c[1])):
            n = len(c[1])
            if r.c.bits[r.p:r.p + n] == c[1]:
                break
        else:
            raise rc.RefError(f'no constructor of {ty[1]} matches')
        r.p += len(c[1])
        v = {'_': c[0]}
        for f, ft in c[2]:
            x = dec(r, ft)
            if f.startswith('_'):
                v.update(x)
            else:
                v[f] = x
        return v
    if k == 'hme':
        return T.dec_hashmap_e(r, ty[1], lambda vr: dec(vr, ty[2]))
    if k in ('hm', 'hmaug'):
        # the root node of the dictionary is inline and other fields may follow it: read its label (and, for a root leaf, extra and value) from
        # r itself; the subtrees of a root fork are whole cells
        width = ty[1]
        aug = _aug_decoder(ty[3]) if k == 'hmaug' else None
        label, used = dictref.read_label(r.c.bits[r.p:], width)
        if len(label) > width:
            raise rc.RefError('label longer than the key')
        r.p += used
        items, extras = {}, []
        if len(label) == width:
            if aug:
                extras.append(dec(r, ty[3]))
            items[int(label, 2) if label else 0] = dec(r, ty[2])
        else:
            rest = width - len(label) - 1
            for bit in '01':
                leaves, xs, pruned = dictref.decode(r.ref(), rest, aug)
                extras.extend(xs or [])
                for key, (bits, refs) in leaves.items():
                    vr = T.Rd(rc.RC(bits, refs))
                    items[int(label + bit + key, 2)] = dec(vr, ty[2])
                    if vr.left() != (0, 0):
                        raise rc.RefError('dictionary value has trailing data')
            if aug:
                extras.append(dec(r, ty[3]))
        return items if k == 'hm' else {'items': items, 'extras': extras}
    if k == 'hmauge':
        if not r.u(1):
            return {'items': {}, 'extras': [], 'root_extra': dec(r, ty[3])}
        root = r.ref()
        leaves, extras, pruned = dictref.decode(root, ty[1], _aug_decoder(ty[3]))
        items = {}
        for key, (bits, refs) in leaves.items():
            vr = T.Rd(rc.RC(bits, refs))
            items[int(key, 2)] = dec(vr, ty[2])
            if vr.left() != (0, 0):
                raise rc.RefError('dictionary value has trailing data')
        return {'items': items, 'extras': extras, 'root_extra': dec(r, ty[3])}
    raise ValueError(ty)


def flatten(ty, v):
    """value with the anonymous '_ref' groups merged into the parent (the view a user of the parsed object has)"""
    return v


# ----------------------------------------------------------------------------------------------- generator
class G:
    def __init__(self, rng, msg_gen=None):
        self.rng, self.msg_gen = rng, msg_gen
        self.ctor_counts = {}
        self.small = False        # keep amounts short so that large constructors fit one cell

    # ---- systematic enumeration of the structural decisions (Maybe present/absent, constructor alternatives) near the top of a value
    script, trace, script_depth = None, None, 2

    def scripted(self, depth):
        return self.script is not None and depth <= self.script_depth

    def decide(self, n, depth):
        i = len(self.trace)
        c = self.script[i] if i < len(self.script) else 0
        c = min(c, n - 1)
        self.trace.append((c, n))
        return c

    def uint(self, n):
        r = self.rng
        return r.choice([0, 1, (1 << n) - 1, 1 << (n - 1), (1 << (n - 1)) - 1, r.getrandbits(n), r.getrandbits(n)])

    def sint(self, n):
        r = self.rng
        return r.choice([0, 1, -1, (1 << (n - 1)) - 1, -(1 << (n - 1)), r.randrange(-(1 << (n - 1)), 1 << (n - 1))])

    def grams(self):
        r = self.rng
        if self.small:
            return r.choice([0, 1, 255, 256, r.getrandbits(16)])
        return r.choice([0, 1, 255, 256, 10 ** 9, (1 << 120) - 1, r.getrandbits(r.choice([8, 16, 64, 120]))])

    def cc(self):
        r = self.rng
        other = {}
        if r.random() < 0.25 and not self.small:
            for _ in range(r.randint(1, 3)):
                other[r.getrandbits(32)] = r.getrandbits(r.choice([8, 64, 200])) + 1
        return {'grams': self.grams(), 'other': other}

    def value(self, ty, depth=0, forced=None):
        r = self.rng
        k = ty[0]
        if k == 'u':
            return self.uint(ty[1])
        if k == 'i':
            return self.sint(ty[1])
        if k == 'le':
            return r.choice([0, ty[1], r.randint(0, ty[1])])
        if k == 'const':
            return ty[2]
        if k == 'main16':
            return None      # filled in by the constructor hook
        if k == 'bool':
            return r.random() < 0.5
        if k == 'bits':
            return r.choice([bytes(ty[1]), b'\xff' * ty[1], r.randbytes(ty[1]), r.randbytes(ty[1])])
        if k == 'grams':
            return self.grams()
        if k == 'varu':
            # byte lengths are cycled, not drawn: every length 0..n-1 of VarUInteger n occurs (the top one, n-1, included) however few values are generated
            self.varu_i = getattr(self, 'varu_i', 0) + 1
            nb = self.varu_i % ty[1] if not self.small else r.randrange(min(ty[1], 3))
            return 0 if nb == 0 else r.choice([(1 << (8 * nb)) - 1, 1 << (8 * nb - 1), (1 << (8 * nb - 8)), r.getrandbits(8 * nb) | (1 << (8 * nb - 8))])
        if k == 'cc':
            return self.cc()
        if k == 'addr':
            a = {'workchain_id': r.choice([0, -1, r.randrange(-128, 128)]), 'address': r.randbytes(32)}
            if r.random() < 0.15:
                d = r.randint(1, 30)
                a['anycast'] = (d, r.getrandbits(d))
            return a
        if k == 'cell':
            return rc.RC(gen.rand_bits(r, r.choice([0, 7, 64])), [rc.RC(gen.rand_bits(r, 9))] if r.random() < 0.3 else [])
        if k == 'msg':
            m = self.msg_gen(r)
            placements = [p for p in (('inline', 'inline'), ('inline', 'ref'), ('ref', 'inline'), ('ref', 'ref')) if (m.get('init') is not None or p[0] == 'inline')]
            r.shuffle(placements)
            for p in placements:
                try:
                    T.cell_of(T.enc_message, m, *p)
                    return {'msg': m, 'placement': p}
                except rc.RefError:
                    continue
            m = dict(m, init=None, body=rc.RC('1'))
            return {'msg': m, 'placement': ('inline', 'ref')}
        if k == 'maybe':
            present = self.decide(2, depth) if self.scripted(depth) else (r.random() >= 0.4)
            return self.value(ty[1], depth) if present else None
        if k == 'ref':
            return self.value(ty[1], depth)
        if k == 'seq':
            return {f: self.value(ft, depth) for f, ft in ty[1]}
        if k == 't':
            ctors = TYPES[ty[1]]
            if forced:
                c = next(c for c in ctors if c[0] == forced)
            elif self.scripted(depth) and len(ctors) > 1:
                c = ctors[self.decide(len(ctors), depth)]
            else:
                cands = ctors
                if depth >= 2:
                    flat = [c for c in ctors if not _recursive(c)]
                    cands = flat or ctors
                c = r.choice(cands)
            self.ctor_counts[(ty[1], c[0])] = self.ctor_counts.get((ty[1], c[0]), 0) + 1
            v = {'_': c[0]}
            for f, ft in c[2]:
                x = self.value(ft, depth + 1)
                if f.startswith('_'):
                    v.update(x)
                else:
                    v[f] = x
            if ty[1] in ('BlockExtra', 'ShardStateUnsplit'):
                v['custom'] = None        # custom:(Maybe ^McBlockExtra): McBlockExtra is not transcribed, so only the absent form is generated
            if ty[1] == 'ValidatorSet':
                n = r.choice([1, 2, 5, 40])
                v['list'] = {i: self.value(t('ValidatorDescr'), depth + 1) for i in range(n)}
                v['total'] = max(n, r.choice([n, n + 3, 65535]))
                v['main'] = r.randint(1, v['total'])
            return v
        if k in ('hme', 'hm'):
            n = r.choice([0, 1, 2, 4]) if k == 'hme' else r.choice([1, 2, 4])
            return {r.getrandbits(ty[1]): self.value(ty[2], depth + 1) for _ in range(n)}
        if k == 'hmaug':
            n = r.choice([1, 2, 3])
            items = {r.getrandbits(ty[1]): self.value(ty[2], depth + 1) for _ in range(n)}
            return {'items': items, 'extra_of': lambda x: {'grams': x['total_fees']['grams'], 'other': {}},
                    'combine': lambda a, b: {'grams': min(a['grams'] + b['grams'], (1 << 120) - 1), 'other': {}}}
        if k == 'hmauge':
            n = r.choice([0, 1, 2, 3])
            items = {r.getrandbits(ty[1]): self.value(ty[2], depth + 1) for _ in range(n)}
            # the augmentation values are not validated by any parser: any value of type Y will do, but the same one for the same leaf
            memo = {}

            def extra_of(x, _m=memo):
                return _m.setdefault(id(x), self.value(ty[3], depth + 1))
            return {'items': items, 'extra_of': extra_of, 'combine': lambda a, b: a, 'empty_extra': self.value(ty[3], depth + 1)}
        raise ValueError(ty)


def enum_values(g, name, cname, limit, tries=4):
    """values of constructor `cname` covering every combination of the structural decisions (Maybe fields, constructor alternatives of sub-fields) down to
    g.script_depth levels, odometer order, at most `limit` values; leaf values stay random.  Yields (value, writer) that fit one cell."""
    script, n = [], 0
    while n < limit:
        got = None
        for attempt in range(tries):
            g.script, g.trace = list(script), []
            g.small = attempt >= 1
            try:
                v = g.value(t(name), 0, forced=cname)
                w = T.W()
                enc(w, t(name), v)
                w.cell()
                got = (v, w)
                break
            except rc.RefError:
                continue
        trace = g.trace
        g.script, g.trace, g.small = None, None, False
        if got is not None:
            n += 1
            yield got
        i = len(trace) - 1
        while i >= 0 and trace[i][0] + 1 >= trace[i][1]:
            i -= 1
        if i < 0:
            return
        script = [c for c, _ in trace[:i]] + [trace[i][0] + 1]


def _recursive(ctor):
    def has(ty):
        if ty[0] == 't':
            return ty[1] in ('Transaction', 'InMsg', 'MsgEnvelope')
        if ty[0] in ('maybe', 'ref'):
            return has(ty[1])
        if ty[0] == 'seq':
            return any(has(ft) for _, ft in ty[1])
        if ty[0] == 'msg':
            return False
        return False
    return any(has(ft) for _, ft in ctor[2])


def all_ctors():
    return [(n, c[0]) for n, cs in TYPES.items() for c in cs]


def fitting_value(g, name, cname, tries=6):
    """(value, cell) of the named constructor that fits one cell (amounts are shortened after the first failures)"""
    for i in range(tries):
        g.small = i >= 2
        try:
            v = g.value(t(name), 0, forced=cname)
            w = T.W()
            enc(w, t(name), v)
            c = w.cell()
            g.small = False
            return v, w
        except rc.RefError:
            continue
    g.small = False
    return None, None


def _reencodable(ty, back, orig):
    """decoded value with the augmentation functions of the original put back (they are not data)"""
    k = ty[0]
    if k in ('hmaug', 'hmauge') and isinstance(orig, dict):
        out = dict(orig)
        xs = {}
        for key, x in back['items'].items():
            xs[key] = _reencodable(ty[2], x, orig['items'][key])
        out['items'] = xs
        by_new = {id(xs[key]): orig['items'][key] for key in xs}
        out['extra_of'] = lambda x, f=orig['extra_of'], m=by_new: f(m[id(x)])
        return out
    if k in ('maybe',):
        return None if back is None else _reencodable(ty[1], back, orig)
    if k == 'ref':
        return _reencodable(ty[1], back, orig)
    if k == 'seq':
        return {f: _reencodable(ft, back[f], orig[f]) for f, ft in ty[1]}
    if k == 't':
        c = next(c for c in TYPES[ty[1]] if c[0] == back['_'])
        out = {'_': back['_']}
        for f, ft in c[2]:
            if f.startswith('_'):
                out.update(_reencodable(ft, back, orig))
            else:
                out[f] = _reencodable(ft, back[f], orig[f])
        return out
    if k in ('hme', 'hm'):
        return {key: _reencodable(ty[2], x, orig[key]) for key, x in back.items()}
    return back


def selftest():
    import random
    rng = random.Random(11)
    g = G(rng, msg_gen=lambda r: {'info': {'_': 'ext_in_msg_info', 'src': None, 'dest': {'workchain_id': 0, 'address': bytes(32)}, 'import_fee': 0}, 'init': None, 'body': rc.RC('101')})
    for name, cname in all_ctors():
        for _ in range(3):
            v, w = fitting_value(g, name, cname)
            assert v is not None, (name, cname)
            rd = T.Rd(w.cell())
            back = dec(rd, t(name))
            assert rd.left() == (0, 0), (name, cname, rd.left())
            w2 = T.W()
            enc(w2, t(name), _reencodable(t(name), back, v))
            assert w2.cell().hash == w.cell().hash, (name, cname, 'decode/encode identity')

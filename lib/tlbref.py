"""R3: independent encoders for the covered constructors of the bundled block.tlb, written from the schema text.
Values are plain Python dicts / ints / bytes / None; cells are lib.refcell.RC.  Nothing of the library is used.

Conventions: every enc_X(w, v) appends the TL-B encoding of value v of type X to writer w.  A value is a dict whose keys are the schema's
field names; constructor alternatives carry '_' = constructor name."""
from . import dictref, refcell as rc


class W:
    """cell writer: bits + refs -> RC"""

    def __init__(self):
        self.b = []
        self.refs = []

    def bits(self, s):
        self.b.append(s)
        return self

    def u(self, v, n):
        if n == 0:
            assert v == 0
            return self
        assert 0 <= v < (1 << n), (v, n)
        self.b.append(bin(v)[2:].zfill(n))
        return self

    def i(self, v, n):
        assert -(1 << (n - 1)) <= v < (1 << (n - 1)), (v, n)
        return self.u(v & ((1 << n) - 1), n)

    def bool(self, v):
        return self.u(1 if v else 0, 1)

    def bytes(self, b):
        self.b.append(rc.bytes_to_bits(bytes(b)))
        return self

    def ref(self, cell):
        assert isinstance(cell, rc.RC)
        self.refs.append(cell)
        return self

    def nbits(self):
        return sum(len(x) for x in self.b)

    def cell(self):
        return rc.RC(''.join(self.b), self.refs)

    def sub(self, fn, *a):
        """^[ ... ]: a child cell written by fn(w, *a)"""
        w = W()
        fn(w, *a)
        return self.ref(w.cell())

    def append(self, other):
        self.b.extend(other.b)
        self.refs.extend(other.refs)
        return self


def cell_of(fn, *a):
    w = W()
    fn(w, *a)
    return w.cell()


# ----------------------------------------------------------------------------------------------- basic types
def enc_var_uint(w, v, n):
    """var_uint$_ {n:#} len:(#< n) value:(uint (len * 8)) = VarUInteger n;   (#< n) takes bitlen(n-1) bits"""
    lb = (n - 1).bit_length()
    ln = (v.bit_length() + 7) // 8
    assert ln < n
    w.u(ln, lb).u(v, 8 * ln)


def enc_var_int(w, v, n):
    lb = (n - 1).bit_length()
    ln = 0
    if v != 0:
        ln = 1
        while not (-(1 << (8 * ln - 1)) <= v < (1 << (8 * ln - 1))):
            ln += 1
    assert ln < n
    w.u(ln, lb)
    if ln:
        w.i(v, 8 * ln)


def enc_grams(w, v):
    enc_var_uint(w, v, 16)


def enc_maybe(w, v, enc, *a):
    if v is None:
        w.u(0, 1)
    else:
        w.u(1, 1)
        enc(w, v, *a)


def enc_hashmap_e(w, m, width, enc_value):
    """HashmapE width X: m = {int key: value}"""
    if not m:
        w.u(0, 1)
        return
    w.u(1, 1).ref(hashmap(m, width, enc_value))


def hashmap(m, width, enc_value, **kw):
    items = {}
    for k, v in m.items():
        vw = W()
        enc_value(vw, v)
        items[dictref.u(k, width)] = (''.join(vw.b), vw.refs)
    return dictref.encode(items, width, **kw)


def enc_hashmap_aug_e(w, m, width, enc_value, leaf_extra, combine, enc_extra, empty_extra, **kw):
    """HashmapAugE width X Y: ahme_empty$0 extra:Y / ahme_root$1 root:^(HashmapAug n X Y) extra:Y"""
    def xbits(e):
        xw = W()
        enc_extra(xw, e)
        return ''.join(xw.b), list(xw.refs)
    if not m:
        w.u(0, 1)
        enc_extra(w, empty_extra)
        return
    items, extras = {}, {}
    for k, v in m.items():
        vw = W()
        enc_value(vw, v)
        kb = dictref.u(k, width)
        items[kb] = (''.join(vw.b), vw.refs)
        extras[(''.join(vw.b), tuple(r.hash for r in vw.refs))] = leaf_extra(v)
    root, root_extra = dictref.encode_with_extra(items, width, (lambda bv: extras[(bv[0], tuple(r.hash for r in bv[1]))], combine, xbits), **kw)
    w.u(1, 1).ref(root)
    enc_extra(w, root_extra)


# ----------------------------------------------------------------------------------------------- addresses
def enc_anycast(w, a):
    """anycast_info$_ depth:(#<= 30) { depth >= 1 } rewrite_pfx:(bits depth) = Anycast;   (#<= 30) takes 5 bits"""
    depth, pfx = a
    assert 1 <= depth <= 30
    w.u(depth, 5).u(pfx, depth)


def enc_msg_address_int(w, a):
    """addr_std$10 anycast:(Maybe Anycast) workchain_id:int8 address:bits256"""
    w.u(2, 2)
    enc_maybe(w, a.get('anycast'), enc_anycast)
    w.i(a['workchain_id'], 8).bytes(a['address'])


def enc_msg_address_ext(w, a):
    """addr_none$00 / addr_extern$01 len:(## 9) external_address:(bits len)"""
    if a is None:
        w.u(0, 2)
    else:
        w.u(1, 2).u(a['len'], 9).u(a['external_address'], a['len'])


def enc_msg_address(w, a):
    if a is None or 'len' in a:
        enc_msg_address_ext(w, a)
    else:
        enc_msg_address_int(w, a)


# ----------------------------------------------------------------------------------------------- currencies
def enc_extra_currencies(w, d):
    """extra_currencies$_ dict:(HashmapE 32 (VarUInteger 32)) = ExtraCurrencyCollection;"""
    enc_hashmap_e(w, d or {}, 32, lambda vw, v: enc_var_uint(vw, v, 32))


def enc_currency_collection(w, cc):
    """currencies$_ grams:Grams other:ExtraCurrencyCollection = CurrencyCollection;"""
    enc_grams(w, cc['grams'])
    enc_extra_currencies(w, cc.get('other'))


# ----------------------------------------------------------------------------------------------- state init / account
def enc_tick_tock(w, t):
    w.bool(t['tick']).bool(t['tock'])


def enc_state_init(w, s):
    """_ split_depth:(Maybe (## 5)) special:(Maybe TickTock) code:(Maybe ^Cell) data:(Maybe ^Cell) library:(Maybe ^Cell) = StateInit;
    (the bundled schema's StateInit has library:(Maybe ^Cell); StateInitWithLibs is the HashmapE form - same bits)"""
    enc_maybe(w, s.get('split_depth'), lambda w_, v: w_.u(v, 5))
    enc_maybe(w, s.get('special'), enc_tick_tock)
    for k in ('code', 'data', 'library'):
        c = s.get(k)
        if c is None:
            w.u(0, 1)
        else:
            w.u(1, 1).ref(c)


def enc_storage_used(w, s):
    """storage_used$_ cells:(VarUInteger 7) bits:(VarUInteger 7) public_cells:(VarUInteger 7) = StorageUsed;"""
    for k in ('cells', 'bits', 'public_cells'):
        enc_var_uint(w, s[k], 7)


def enc_storage_used_short(w, s):
    for k in ('cells', 'bits'):
        enc_var_uint(w, s[k], 7)


def enc_storage_info(w, s):
    """storage_info$_ used:StorageUsed last_paid:uint32 due_payment:(Maybe Grams) = StorageInfo;"""
    enc_storage_used(w, s['used'])
    w.u(s['last_paid'], 32)
    enc_maybe(w, s.get('due_payment'), enc_grams)


def enc_account_state(w, s):
    k = s['_']
    if k == 'account_uninit':
        w.u(0, 2)
    elif k == 'account_frozen':
        w.u(1, 2).bytes(s['state_hash'])
    elif k == 'account_active':
        w.u(1, 1)
        enc_state_init(w, s['state_init'])
    else:
        raise ValueError(k)


def enc_account_storage(w, s):
    """account_storage$_ last_trans_lt:uint64 balance:CurrencyCollection state:AccountState = AccountStorage;"""
    w.u(s['last_trans_lt'], 64)
    enc_currency_collection(w, s['balance'])
    enc_account_state(w, s['state'])


def enc_account(w, a):
    """account_none$0 = Account; account$1 addr:MsgAddressInt storage_stat:StorageInfo storage:AccountStorage = Account;"""
    if a is None:
        w.u(0, 1)
        return
    w.u(1, 1)
    enc_msg_address_int(w, a['addr'])
    enc_storage_info(w, a['storage_stat'])
    enc_account_storage(w, a['storage'])


def enc_shard_account(w, s):
    """account_descr$_ account:^Account last_trans_hash:bits256 last_trans_lt:uint64 = ShardAccount;"""
    w.ref(s['account_cell'] if 'account_cell' in s else cell_of(enc_account, s['account']))
    w.bytes(s['last_trans_hash']).u(s['last_trans_lt'], 64)


def enc_depth_balance(w, d):
    """depth_balance$_ split_depth:(#<= 30) balance:CurrencyCollection = DepthBalanceInfo;"""
    w.u(d['split_depth'], 5)
    enc_currency_collection(w, d['balance'])


def enc_shard_accounts(w, accounts, **kw):
    """_ (HashmapAugE 256 ShardAccount DepthBalanceInfo) = ShardAccounts;  accounts = {int id: shard account value}"""
    def leaf_extra(sa):
        acc = sa.get('account')
        bal = acc['storage']['balance'] if acc else {'grams': sa.get('balance_hint', 0)}
        return {'split_depth': sa.get('split_depth', 0), 'balance': {'grams': bal['grams'], 'other': dict(bal.get('other') or {})}}

    def combine(a, b):
        other = dict(a['balance'].get('other') or {})
        for k, v in (b['balance'].get('other') or {}).items():
            other[k] = other.get(k, 0) + v
        return {'split_depth': 0, 'balance': {'grams': a['balance']['grams'] + b['balance']['grams'], 'other': other}}
    enc_hashmap_aug_e(w, accounts, 256, enc_shard_account, leaf_extra, combine, enc_depth_balance, {'split_depth': 0, 'balance': {'grams': 0}}, **kw)


# ----------------------------------------------------------------------------------------------- block header bits
def enc_shard_ident(w, s):
    """shard_ident$00 shard_pfx_bits:(#<= 60) workchain_id:int32 shard_prefix:uint64 = ShardIdent;   (#<= 60) takes 6 bits"""
    w.u(0, 2).u(s['shard_pfx_bits'], 6).i(s['workchain_id'], 32).u(s['shard_prefix'], 64)


def enc_ext_blk_ref(w, r):
    """ext_blk_ref$_ end_lt:uint64 seq_no:uint32 root_hash:bits256 file_hash:bits256 = ExtBlkRef;"""
    w.u(r['end_lt'], 64).u(r['seq_no'], 32).bytes(r['root_hash']).bytes(r['file_hash'])


def enc_blk_master_info(w, m):
    enc_ext_blk_ref(w, m['master'])


def enc_shard_state_unsplit(w, s):
    """shard_state#9023afe2 global_id:int32 shard_id:ShardIdent seq_no:uint32 vert_seq_no:# gen_utime:uint32 gen_lt:uint64 min_ref_mc_seqno:uint32
    out_msg_queue_info:^OutMsgQueueInfo before_split:(## 1) accounts:^ShardAccounts
    ^[ overload_history:uint64 underload_history:uint64 total_balance:CurrencyCollection total_validator_fees:CurrencyCollection
       libraries:(HashmapE 256 LibDescr) master_ref:(Maybe BlkMasterInfo) ] custom:(Maybe ^McStateExtra) = ShardStateUnsplit;"""
    w.u(0x9023afe2, 32).i(s['global_id'], 32)
    enc_shard_ident(w, s['shard_id'])
    w.u(s['seq_no'], 32).u(s['vert_seq_no'], 32).u(s['gen_utime'], 32).u(s['gen_lt'], 64).u(s['min_ref_mc_seqno'], 32)
    w.ref(s['out_msg_queue_info'])
    w.u(s['before_split'], 1)
    w.ref(s['accounts_cell'] if 'accounts_cell' in s else cell_of(enc_shard_accounts, s['accounts']))

    def tail(tw):
        tw.u(s['overload_history'], 64).u(s['underload_history'], 64)
        enc_currency_collection(tw, s['total_balance'])
        enc_currency_collection(tw, s['total_validator_fees'])
        tw.u(0, 1)        # libraries: empty HashmapE
        enc_maybe(tw, s.get('master_ref'), enc_blk_master_info)
    w.sub(tail)
    if s.get('custom_cell') is None:
        w.u(0, 1)
    else:
        w.u(1, 1).ref(s['custom_cell'])


def selftest():
    import random
    rng = random.Random(5)
    w = W()
    enc_var_uint(w, 0, 16)
    assert ''.join(w.b) == '0000'
    w = W()
    enc_var_uint(w, 256, 16)
    assert ''.join(w.b) == '0010' + '0000000100000000'
    w = W()
    enc_var_uint(w, 5, 7)
    assert ''.join(w.b) == '001' + '00000101'
    w = W()
    enc_var_uint(w, 5, 32)
    assert ''.join(w.b) == '00001' + '00000101'
    accounts = {rng.getrandbits(256): {'account': None, 'last_trans_hash': bytes(32), 'last_trans_lt': 7} for _ in range(5)}
    c = cell_of(enc_shard_accounts, accounts)
    assert c.bits[0] == '1' and len(c.refs) == 1


# =============================================================================================== messages (C15)
def enc_common_msg_info(w, m):
    """int_msg_info$0 ihr_disabled:Bool bounce:Bool bounced:Bool src:MsgAddressInt dest:MsgAddressInt value:CurrencyCollection ihr_fee:Grams fwd_fee:Grams
         created_lt:uint64 created_at:uint32
       ext_in_msg_info$10 src:MsgAddressExt dest:MsgAddressInt import_fee:Grams
       ext_out_msg_info$11 src:MsgAddressInt dest:MsgAddressExt created_lt:uint64 created_at:uint32"""
    k = m['_']
    if k == 'int_msg_info':
        w.u(0, 1).bool(m['ihr_disabled']).bool(m['bounce']).bool(m['bounced'])
        enc_msg_address(w, m['src'])          # the library also accepts addr_none here (src is filled in by the validator)
        enc_msg_address(w, m['dest'])
        enc_currency_collection(w, m['value'])
        enc_grams(w, m['ihr_fee'])
        enc_grams(w, m['fwd_fee'])
        w.u(m['created_lt'], 64).u(m['created_at'], 32)
    elif k == 'ext_in_msg_info':
        w.u(2, 2)
        enc_msg_address(w, m['src'])
        enc_msg_address(w, m['dest'])
        enc_grams(w, m['import_fee'])
    elif k == 'ext_out_msg_info':
        w.u(3, 2)
        enc_msg_address(w, m['src'])
        enc_msg_address(w, m['dest'])
        w.u(m['created_lt'], 64).u(m['created_at'], 32)
    else:
        raise ValueError(k)


def enc_message(w, msg, init_place='inline', body_place='inline'):
    """message$_ {X:Type} info:CommonMsgInfo init:(Maybe (Either StateInit ^StateInit)) body:(Either X ^X) = Message X;   body is an RC cell"""
    enc_common_msg_info(w, msg['info'])
    if msg.get('init') is None:
        w.u(0, 1)
    else:
        w.u(1, 1)
        if init_place == 'inline':
            w.u(0, 1)
            enc_state_init(w, msg['init'])
        else:
            w.u(1, 1).sub(enc_state_init, msg['init'])
    body = msg['body']
    if body_place == 'inline':
        w.u(0, 1).bits(body.bits)
        for r in body.refs:
            w.ref(r)
    else:
        w.u(1, 1).ref(body)


class Rd:
    """reader over an RC cell"""

    def __init__(self, cell):
        self.c, self.p, self.r = cell, 0, 0

    def u(self, n):
        if self.p + n > len(self.c.bits):
            raise rc.RefError('read past the end of the cell')
        v = int(self.c.bits[self.p:self.p + n], 2) if n else 0
        self.p += n
        return v

    def i(self, n):
        v = self.u(n)
        return v - (1 << n) if n and v >> (n - 1) else v

    def bytes(self, n):
        return self.u(8 * n).to_bytes(n, 'big')

    def ref(self):
        if self.r >= len(self.c.refs):
            raise rc.RefError('no reference left')
        self.r += 1
        return self.c.refs[self.r - 1]

    def rest(self):
        """the remaining part as a cell"""
        return rc.RC(self.c.bits[self.p:], self.c.refs[self.r:])

    def left(self):
        return len(self.c.bits) - self.p, len(self.c.refs) - self.r


def dec_var_uint(r, n):
    ln = r.u((n - 1).bit_length())
    return r.u(8 * ln)


def dec_msg_address(r):
    t = r.u(2)
    if t == 0:
        return None
    if t == 1:
        ln = r.u(9)
        return {'len': ln, 'external_address': r.u(ln)}
    if t == 2:
        a = {}
        if r.u(1):
            d = r.u(5)
            a['anycast'] = (d, r.u(d))
        a['workchain_id'] = r.i(8)
        a['address'] = r.bytes(32)
        return a
    raise rc.RefError('addr_var not covered')


def dec_hashmap_e(r, width, dec_value):
    if not r.u(1):
        return {}
    leaves, _, pruned = dictref.decode(r.ref(), width)
    out = {}
    for k, (bits, refs) in leaves.items():
        out[int(k, 2)] = dec_value(Rd(rc.RC(bits, refs)))
    return out


def dec_currency_collection(r):
    g = dec_var_uint(r, 16)
    other = dec_hashmap_e(r, 32, lambda vr: dec_var_uint(vr, 32))
    return {'grams': g, 'other': other}


def dec_state_init(r):
    s = {}
    if r.u(1):
        s['split_depth'] = r.u(5)
    if r.u(1):
        s['special'] = {'tick': bool(r.u(1)), 'tock': bool(r.u(1))}
    for k in ('code', 'data', 'library'):
        if r.u(1):
            s[k] = r.ref()
    return s


def dec_common_msg_info(r):
    if r.u(1) == 0:
        m = {'_': 'int_msg_info', 'ihr_disabled': bool(r.u(1)), 'bounce': bool(r.u(1)), 'bounced': bool(r.u(1))}
        m['src'] = dec_msg_address(r)
        m['dest'] = dec_msg_address(r)
        m['value'] = dec_currency_collection(r)
        m['ihr_fee'] = dec_var_uint(r, 16)
        m['fwd_fee'] = dec_var_uint(r, 16)
        m['created_lt'] = r.u(64)
        m['created_at'] = r.u(32)
        return m
    if r.u(1) == 0:
        return {'_': 'ext_in_msg_info', 'src': dec_msg_address(r), 'dest': dec_msg_address(r), 'import_fee': dec_var_uint(r, 16)}
    return {'_': 'ext_out_msg_info', 'src': dec_msg_address(r), 'dest': dec_msg_address(r), 'created_lt': r.u(64), 'created_at': r.u(32)}


def dec_message(cell):
    """-> (logical message, (init placement, body placement))"""
    r = Rd(cell)
    msg = {'info': dec_common_msg_info(r), 'init': None}
    ip = None
    if r.u(1):
        if r.u(1):
            ip = 'ref'
            ir = Rd(r.ref())
            msg['init'] = dec_state_init(ir)
            if ir.left() != (0, 0):
                raise rc.RefError('state-init cell has trailing data')
        else:
            ip = 'inline'
            msg['init'] = dec_state_init(r)
    if r.u(1):
        bp = 'ref'
        msg['body'] = r.ref()
        if r.left() != (0, 0):
            raise rc.RefError('message cell has trailing data after the body reference')
    else:
        bp = 'inline'
        msg['body'] = r.rest()
    return msg, (ip, bp)


def norm_cc(cc):
    return {'grams': cc['grams'], 'other': {k: v for k, v in (cc.get('other') or {}).items()}}


def norm_msg(m):
    """comparison form: cells by hash, currency dictionaries as plain dicts"""
    def addr(a):
        if a is None:
            return None
        return tuple(sorted(a.items()))
    info = dict(m['info'])
    for k in ('src', 'dest'):
        info[k] = addr(info[k])
    if 'value' in info:
        info['value'] = norm_cc(info['value'])
    init = None
    if m.get('init') is not None:
        init = {k: (v.hash if isinstance(v, rc.RC) else v) for k, v in m['init'].items() if v is not None}
        if 'special' in init:
            init['special'] = tuple(sorted(init['special'].items()))
    return {'info': info, 'init': init, 'body': m['body'].hash}

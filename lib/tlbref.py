"""R3: independent encoders for the covered constructors of the bundled block.tlb, written from the schema text.
Values are plain Python dicts / ints / bytes / None; cells are lib.refcell.RC.  Nothing of the library is used.

Conventions: every enc_X(w, v) appends the TL-B encoding of value v of type X to writer w.  A value is a dict whose keys are the schema's
field names; constructor alternatives carry '_' = constructor name."""
from . import dictref, refcell as rc


class W:
    """cell writer: bits + refs -> RC"""

    def __init__(self):
        self.b = []
        self.refs = []

    def bits(self, s):
        self.b.append(s)
        return self

    def u(self, v, n):
        if n == 0:
            assert v == 0
            return self
        assert 0 <= v < (1 << n), (v, n)
        self.b.append(bin(v)[2:].zfill(n))
        return self

    def i(self, v, n):
        assert -(1 << (n - 1)) <= v < (1 << (n - 1)), (v, n)
        return self.u(v & ((1 << n) - 1), n)

    def bool(self, v):
        return self.u(1 if v else 0, 1)

    def bytes(self, b):
        self.b.append(rc.bytes_to_bits(bytes(b)))
        return self

    def ref(self, cell):
        assert isinstance(cell, rc.RC)
        self.refs.append(cell)
        return self

    def nbits(self):
        return sum(len(x) for x in self.b)

    def cell(self):
        return rc.RC(''.join(self.b), self.refs)

    def sub(self, fn, *a):
        """^[ ... ]: a child cell written by fn(w, *a)"""
        w = W()
        fn(w, *a)
        return self.ref(w.cell())

    def append(self, other):
        self.b.extend(other.b)
        self.refs.extend(other.refs)
        return self


def cell_of(fn, *a):
    w = W()
    fn(w, *a)
    return w.cell()


# ----------------------------------------------------------------------------------------------- basic types
def enc_var_uint(w, v, n):
    """var_uint$_ {n:#} len:(#< n) value:(uint (len * 8)) = VarUInteger n;   (#< n) takes bitlen(n-1) bits"""
    lb = (n - 1).bit_length()
    ln = (v.bit_length() + 7) // 8
    assert ln < n
    w.u(ln, lb).u(v, 8 * ln)


def enc_var_int(w, v, n):
    lb = (n - 1).bit_length()
    ln = 0
    if v != 0:
        ln = 1
        while not (-(1 << (8 * ln - 1)) <= v < (1 << (8 * ln - 1))):
            ln += 1
    assert ln < n
    w.u(ln, lb)
    if ln:
        w.i(v, 8 * ln)


def enc_grams(w, v):
    enc_var_uint(w, v, 16)


def enc_maybe(w, v, enc, *a):
    if v is None:
        w.u(0, 1)
    else:
        w.u(1, 1)
        enc(w, v, *a)


def enc_hashmap_e(w, m, width, enc_value):
    """HashmapE width X: m = {int key: value}"""
    if not m:
        w.u(0, 1)
        return
    w.u(1, 1).ref(hashmap(m, width, enc_value))


def hashmap(m, width, enc_value, **kw):
    items = {}
    for k, v in m.items():
        vw = W()
        enc_value(vw, v)
        items[dictref.u(k, width)] = (''.join(vw.b), vw.refs)
    return dictref.encode(items, width, **kw)


def enc_hashmap_aug_e(w, m, width, enc_value, leaf_extra, combine, enc_extra, empty_extra, **kw):
    """HashmapAugE width X Y: ahme_empty$0 extra:Y / ahme_root$1 root:^(HashmapAug n X Y) extra:Y"""
    def xbits(e):
        xw = W()
        enc_extra(xw, e)
        assert not xw.refs
        return ''.join(xw.b)
    if not m:
        w.u(0, 1)
        enc_extra(w, empty_extra)
        return
    items, extras = {}, {}
    for k, v in m.items():
        vw = W()
        enc_value(vw, v)
        kb = dictref.u(k, width)
        items[kb] = (''.join(vw.b), vw.refs)
        extras[(''.join(vw.b), tuple(r.hash for r in vw.refs))] = leaf_extra(v)
    root, root_extra = dictref.encode_with_extra(items, width, (lambda bv: extras[(bv[0], tuple(r.hash for r in bv[1]))], combine, xbits), **kw)
    w.u(1, 1).ref(root)
    enc_extra(w, root_extra)


# ----------------------------------------------------------------------------------------------- addresses
def enc_anycast(w, a):
    """anycast_info$_ depth:(#<= 30) { depth >= 1 } rewrite_pfx:(bits depth) = Anycast;   (#<= 30) takes 5 bits"""
    depth, pfx = a
    assert 1 <= depth <= 30
    w.u(depth, 5).u(pfx, depth)


def enc_msg_address_int(w, a):
    """addr_std$10 anycast:(Maybe Anycast) workchain_id:int8 address:bits256"""
    w.u(2, 2)
    enc_maybe(w, a.get('anycast'), enc_anycast)
    w.i(a['workchain_id'], 8).bytes(a['address'])


def enc_msg_address_ext(w, a):
    """addr_none$00 / addr_extern$01 len:(## 9) external_address:(bits len)"""
    if a is None:
        w.u(0, 2)
    else:
        w.u(1, 2).u(a['len'], 9).u(a['external_address'], a['len'])


def enc_msg_address(w, a):
    if a is None or 'len' in a:
        enc_msg_address_ext(w, a)
    else:
        enc_msg_address_int(w, a)


# ----------------------------------------------------------------------------------------------- currencies
def enc_extra_currencies(w, d):
    """extra_currencies$_ dict:(HashmapE 32 (VarUInteger 32)) = ExtraCurrencyCollection;"""
    enc_hashmap_e(w, d or {}, 32, lambda vw, v: enc_var_uint(vw, v, 32))


def enc_currency_collection(w, cc):
    """currencies$_ grams:Grams other:ExtraCurrencyCollection = CurrencyCollection;"""
    enc_grams(w, cc['grams'])
    enc_extra_currencies(w, cc.get('other'))


# ----------------------------------------------------------------------------------------------- state init / account
def enc_tick_tock(w, t):
    w.bool(t['tick']).bool(t['tock'])


def enc_state_init(w, s):
    """_ split_depth:(Maybe (## 5)) special:(Maybe TickTock) code:(Maybe ^Cell) data:(Maybe ^Cell) library:(Maybe ^Cell) = StateInit;
    (the bundled schema's StateInit has library:(Maybe ^Cell); StateInitWithLibs is the HashmapE form - same bits)"""
    enc_maybe(w, s.get('split_depth'), lambda w_, v: w_.u(v, 5))
    enc_maybe(w, s.get('special'), enc_tick_tock)
    for k in ('code', 'data', 'library'):
        c = s.get(k)
        if c is None:
            w.u(0, 1)
        else:
            w.u(1, 1).ref(c)


def enc_storage_used(w, s):
    """storage_used$_ cells:(VarUInteger 7) bits:(VarUInteger 7) public_cells:(VarUInteger 7) = StorageUsed;"""
    for k in ('cells', 'bits', 'public_cells'):
        enc_var_uint(w, s[k], 7)


def enc_storage_used_short(w, s):
    for k in ('cells', 'bits'):
        enc_var_uint(w, s[k], 7)


def enc_storage_info(w, s):
    """storage_info$_ used:StorageUsed last_paid:uint32 due_payment:(Maybe Grams) = StorageInfo;"""
    enc_storage_used(w, s['used'])
    w.u(s['last_paid'], 32)
    enc_maybe(w, s.get('due_payment'), enc_grams)


def enc_account_state(w, s):
    k = s['_']
    if k == 'account_uninit':
        w.u(0, 2)
    elif k == 'account_frozen':
        w.u(1, 2).bytes(s['state_hash'])
    elif k == 'account_active':
        w.u(1, 1)
        enc_state_init(w, s['state_init'])
    else:
        raise ValueError(k)


def enc_account_storage(w, s):
    """account_storage$_ last_trans_lt:uint64 balance:CurrencyCollection state:AccountState = AccountStorage;"""
    w.u(s['last_trans_lt'], 64)
    enc_currency_collection(w, s['balance'])
    enc_account_state(w, s['state'])


def enc_account(w, a):
    """account_none$0 = Account; account$1 addr:MsgAddressInt storage_stat:StorageInfo storage:AccountStorage = Account;"""
    if a is None:
        w.u(0, 1)
        return
    w.u(1, 1)
    enc_msg_address_int(w, a['addr'])
    enc_storage_info(w, a['storage_stat'])
    enc_account_storage(w, a['storage'])


def enc_shard_account(w, s):
    """account_descr$_ account:^Account last_trans_hash:bits256 last_trans_lt:uint64 = ShardAccount;"""
    w.ref(s['account_cell'] if 'account_cell' in s else cell_of(enc_account, s['account']))
    w.bytes(s['last_trans_hash']).u(s['last_trans_lt'], 64)


def enc_depth_balance(w, d):
    """depth_balance$_ split_depth:(#<= 30) balance:CurrencyCollection = DepthBalanceInfo;"""
    w.u(d['split_depth'], 5)
    enc_currency_collection(w, d['balance'])


def enc_shard_accounts(w, accounts, **kw):
    """_ (HashmapAugE 256 ShardAccount DepthBalanceInfo) = ShardAccounts;  accounts = {int id: shard account value}"""
    def leaf_extra(sa):
        acc = sa.get('account')
        g = acc['storage']['balance']['grams'] if acc else sa.get('balance_hint', 0)
        return {'split_depth': 0, 'balance': {'grams': g}}

    def combine(a, b):
        return {'split_depth': 0, 'balance': {'grams': a['balance']['grams'] + b['balance']['grams']}}
    enc_hashmap_aug_e(w, accounts, 256, enc_shard_account, leaf_extra, combine, enc_depth_balance, {'split_depth': 0, 'balance': {'grams': 0}}, **kw)


# ----------------------------------------------------------------------------------------------- block header bits
def enc_shard_ident(w, s):
    """shard_ident$00 shard_pfx_bits:(#<= 60) workchain_id:int32 shard_prefix:uint64 = ShardIdent;   (#<= 60) takes 6 bits"""
    w.u(0, 2).u(s['shard_pfx_bits'], 6).i(s['workchain_id'], 32).u(s['shard_prefix'], 64)


def enc_ext_blk_ref(w, r):
    """ext_blk_ref$_ end_lt:uint64 seq_no:uint32 root_hash:bits256 file_hash:bits256 = ExtBlkRef;"""
    w.u(r['end_lt'], 64).u(r['seq_no'], 32).bytes(r['root_hash']).bytes(r['file_hash'])


def enc_blk_master_info(w, m):
    enc_ext_blk_ref(w, m['master'])


def enc_shard_state_unsplit(w, s):
    """shard_state#9023afe2 global_id:int32 shard_id:ShardIdent seq_no:uint32 vert_seq_no:# gen_utime:uint32 gen_lt:uint64 min_ref_mc_seqno:uint32
    out_msg_queue_info:^OutMsgQueueInfo before_split:(## 1) accounts:^ShardAccounts
    ^[ overload_history:uint64 underload_history:uint64 total_balance:CurrencyCollection total_validator_fees:CurrencyCollection
       libraries:(HashmapE 256 LibDescr) master_ref:(Maybe BlkMasterInfo) ] custom:(Maybe ^McStateExtra) = ShardStateUnsplit;"""
    w.u(0x9023afe2, 32).i(s['global_id'], 32)
    enc_shard_ident(w, s['shard_id'])
    w.u(s['seq_no'], 32).u(s['vert_seq_no'], 32).u(s['gen_utime'], 32).u(s['gen_lt'], 64).u(s['min_ref_mc_seqno'], 32)
    w.ref(s['out_msg_queue_info'])
    w.u(s['before_split'], 1)
    w.ref(s['accounts_cell'] if 'accounts_cell' in s else cell_of(enc_shard_accounts, s['accounts']))

    def tail(tw):
        tw.u(s['overload_history'], 64).u(s['underload_history'], 64)
        enc_currency_collection(tw, s['total_balance'])
        enc_currency_collection(tw, s['total_validator_fees'])
        tw.u(0, 1)        # libraries: empty HashmapE
        enc_maybe(tw, s.get('master_ref'), enc_blk_master_info)
    w.sub(tail)
    if s.get('custom_cell') is None:
        w.u(0, 1)
    else:
        w.u(1, 1).ref(s['custom_cell'])


def selftest():
    import random
    rng = random.Random(5)
    w = W()
    enc_var_uint(w, 0, 16)
    assert ''.join(w.b) == '0000'
    w = W()
    enc_var_uint(w, 256, 16)
    assert ''.join(w.b) == '0010' + '0000000100000000'
    w = W()
    enc_var_uint(w, 5, 7)
    assert ''.join(w.b) == '001' + '00000101'
    w = W()
    enc_var_uint(w, 5, 32)
    assert ''.join(w.b) == '00001' + '00000101'
    accounts = {rng.getrandbits(256): {'account': None, 'last_trans_hash': bytes(32), 'last_trans_lt': 7} for _ in range(5)}
    c = cell_of(enc_shard_accounts, accounts)
    assert c.bits[0] == '1' and len(c.refs) == 1

"""R6: bit-at-a-time CRC-16/XMODEM and CRC-32C (Castagnoli), from the catalogue parameters."""


def crc16_xmodem(data: bytes) -> int:
    crc = 0
    for byte in data:
        crc ^= byte << 8
        for _ in range(8):
            crc = ((crc << 1) ^ 0x1021) & 0xFFFF if crc & 0x8000 else (crc << 1) & 0xFFFF
    return crc


def crc32c(data: bytes) -> int:
    crc = 0xFFFFFFFF
    for byte in data:
        crc ^= byte
        for _ in range(8):
            crc = (crc >> 1) ^ 0x82F63B78 if crc & 1 else crc >> 1
    return crc ^ 0xFFFFFFFF


_T32 = None


def crc32c_fast(data: bytes) -> int:
    """table version derived from the bitwise definition above (used only where the reference CRC is a tool,
    e.g. re-sealing corrupted BoCs; C18 itself uses the bitwise functions)"""
    global _T32
    if _T32 is None:
        _T32 = []
        for i in range(256):
            c = i
            for _ in range(8):
                c = (c >> 1) ^ 0x82F63B78 if c & 1 else c >> 1
            _T32.append(c)
    crc = 0xFFFFFFFF
    t = _T32
    for b in data:
        crc = (crc >> 8) ^ t[(crc ^ b) & 0xFF]
    return crc ^ 0xFFFFFFFF


def selftest():
    assert crc16_xmodem(b'123456789') == 0x31C3
    assert crc32c(b'123456789') == 0xE3069283
    assert crc32c_fast(b'123456789') == 0xE3069283
    import os
    for n in (0, 1, 7, 100, 1000):
        d = os.urandom(n)
        assert crc32c(d) == crc32c_fast(d)

"""R4: reference TON Hashmap / HashmapAug (hashmap.tlb part of block.tlb; label selection of crypto/vm/dict.cpp).
Keys are '0'/'1' strings or ints; values are (bits, [RC refs]) pairs."""
from . import refcell as rc


def u(v, w):
    return bin(v)[2:].zfill(w) if w else ''


def uniform(label):
    return len(label) > 0 and label == label[0] * len(label)


def canonical_kind(n, m, is_uniform):
    k = m.bit_length()
    if n > 0 and is_uniform:
        if n > 1 and k < 2 * n - 1:
            return 'same'
        if k < n:
            return 'long'
        return 'short'
    return 'long' if k < n else 'short'


def valid_kinds(n, m, is_uniform):
    kinds = ['short', 'long']
    if is_uniform or n == 0:
        kinds.append('same')
    return kinds


def label_bits(label, m, kind):
    n, k = len(label), m.bit_length()
    if kind == 'short':
        return '0' + '1' * n + '0' + label
    if kind == 'long':
        return '10' + u(n, k) + label
    if kind == 'same':
        return '11' + (label[0] if label else '0') + u(n, k)
    raise ValueError(kind)


def common_prefix(keys):
    a, b = min(keys), max(keys)
    i = 0
    while i < len(a) and a[i] == b[i]:
        i += 1
    return a[:i]


def norm(m, width):
    return {(u(k, width) if isinstance(k, int) else k): v for k, v in m.items()}


def _extra_bits(enc, extra):
    """augmentation value -> (bit string, references): enc is a bit width (uint extras) or a callable returning bits or (bits, refs)"""
    if not callable(enc):
        return u(extra, enc), []
    r = enc(extra)
    return (r, []) if isinstance(r, str) else (r[0], list(r[1]))


def encode(m, width, chooser=None, aug=None, prune=None, kinds_log=None, ret_extra=False):
    """root RC of Hashmap(width) for non-empty map m.  chooser(n, m, uniform) -> kind (default canonical).
    aug = (leaf_extra(value)->extra, combine(a,b)->extra, enc) for HashmapAug: enc is a bit width (uint extras) or a callable extra -> bit string.
    prune(path_prefix, subtree RC) -> bool: replace that subtree by a level-1 pruned branch."""
    items = norm(m, width)
    assert items and all(len(k) == width for k in items)
    chooser = chooser or canonical_kind

    def build(items, m_len, path):
        keys = list(items)
        prefix = common_prefix(keys) if len(keys) > 1 else keys[0]
        n = len(prefix)
        kind = chooser(n, m_len, uniform(prefix))
        if kinds_log is not None:
            kinds_log.append((n, m_len, uniform(prefix), kind))
        bits = label_bits(prefix, m_len, kind)
        rest = m_len - n
        if len(keys) == 1:
            vb, vr = items[keys[0]]
            extra = None
            xrefs = []
            if aug:
                extra = aug[0](items[keys[0]])
                xb, xrefs = _extra_bits(aug[2], extra)
                bits += xb
            cell = rc.RC(bits + vb, list(xrefs) + list(vr))      # ahmn_leaf extra:Y value:X - the extra's references come first
        else:
            left = {k[n + 1:]: v for k, v in items.items() if k[n] == '0'}
            right = {k[n + 1:]: v for k, v in items.items() if k[n] == '1'}
            lc, le = build(left, rest - 1, path + prefix + '0')
            rcell, re_ = build(right, rest - 1, path + prefix + '1')
            extra = None
            xrefs = []
            if aug:
                extra = aug[1](le, re_)
                xb, xrefs = _extra_bits(aug[2], extra)
                bits += xb
            cell = rc.RC(bits, [lc, rcell] + list(xrefs))          # ahmn_fork left:^ right:^ extra:Y - the extra's references come last
        if prune and path and prune(path, cell):
            return rc.make_pruned(cell, 1), extra
        return cell, extra
    root, root_extra = build(items, width, '')
    return (root, root_extra) if ret_extra else root


def encode_with_extra(m, width, aug, **kw):
    """-> (root RC, root extra) for HashmapAugE wrappers that repeat the root extra next to the reference"""
    return encode(m, width, aug=aug, ret_extra=True, **kw)


class DictDecodeError(Exception):
    pass


def read_label(bits, m_len):
    """(label, bits consumed) of the HmLabel at the start of `bits` for remaining key length m_len"""
    k = m_len.bit_length()
    if bits[:1] == '0':
        n = bits.index('0', 1) - 1
        p = 1 + n + 1
        return bits[p:p + n], p + n
    if bits[:2] == '10':
        n = int(bits[2:2 + k], 2) if k else 0
        return bits[2 + k:2 + k + n], 2 + k + n
    v = bits[2]
    n = int(bits[3:3 + k], 2) if k else 0
    return v * n, 3 + k


def decode(cell, width, aug_bits=None):
    """-> (leaves {key str: (value bits, refs)}, extras list in the library's order or None, pruned prefixes)
    aug_bits: None (plain Hashmap), a bit width (uint extras) or a callable (bits, pos, refs, ref_pos) -> (extra, new pos, new ref_pos)"""
    leaves, extras, pruned = {}, [], []

    def read_label(bits, m_len):
        k = m_len.bit_length()
        if bits[:1] == '0':
            n = bits.index('0', 1) - 1
            p = 1 + n + 1
            return bits[p:p + n], p + n
        if bits[:2] == '10':
            n = int(bits[2:2 + k], 2) if k else 0
            return bits[2 + k:2 + k + n], 2 + k + n
        v = bits[2]
        n = int(bits[3:3 + k], 2) if k else 0
        return v * n, 3 + k

    def walk(c, m_len, prefix):
        if c.type == rc.PRUNED:
            pruned.append(prefix)
            return
        if c.type != rc.ORD:
            raise DictDecodeError('exotic')
        label, p = read_label(c.bits, m_len)
        if len(label) > m_len:
            raise DictDecodeError('label too long')
        prefix += label
        rest = m_len - len(label)
        if rest == 0:
            ri = 0
            if callable(aug_bits):
                x, p, ri = aug_bits(c.bits, p, c.refs, 0)
                extras.append(x)
            elif aug_bits is not None:
                extras.append(int(c.bits[p:p + aug_bits], 2) if aug_bits else 0)
                p += aug_bits
            leaves[prefix] = (c.bits[p:], list(c.refs[ri:]))
        else:
            if len(c.refs) < 2:
                raise DictDecodeError('fork without two refs')
            walk(c.refs[0], rest - 1, prefix + '0')
            walk(c.refs[1], rest - 1, prefix + '1')
            if callable(aug_bits):
                extras.append(aug_bits(c.bits, p, c.refs, 2)[0])
            elif aug_bits is not None:
                extras.append(int(c.bits[p:p + aug_bits], 2) if aug_bits else 0)
    walk(cell, width, '')
    return leaves, (extras if aug_bits is not None else None), pruned


def selftest():
    import random
    rng = random.Random(3)
    for _ in range(300):
        w = rng.choice([1, 2, 3, 8, 17, 64, 267])
        m = {rng.getrandbits(w): (u(rng.getrandbits(9), 9), []) for _ in range(rng.randint(1, 12))}
        for chooser in (None, lambda n, mm, un: rng.choice(valid_kinds(n, mm, un))):
            c = encode(m, w, chooser)
            leaves, _, _ = decode(c, w)
            assert leaves == {k: (v[0], v[1]) for k, v in norm(m, w).items()}
        c = encode(m, w, aug=(lambda v: int(v[0], 2), lambda a, b: (a + b) % 65536, 16))
        leaves, extras, _ = decode(c, w, 16)
        assert len(extras) == 2 * len(m) - 1 and extras[-1] == sum(int(v[0], 2) for v in m.values()) % 65536
        # augmentation values that carry a reference (like a CurrencyCollection with extra currencies)
        enc = lambda x: (u(x, 16), [rc.RC(u(x, 16))] if x & 1 else [])
        dec = lambda bits, p, refs, ri: ((int(bits[p:p + 16], 2), refs[ri].hash if int(bits[p:p + 16], 2) & 1 else None), p + 16, ri + (int(bits[p:p + 16], 2) & 1))
        mr = {k: (v[0], [rc.RC('101')] if i % 2 else []) for i, (k, v) in enumerate(m.items())}
        c = encode(mr, w, aug=(lambda v: int(v[0], 2), lambda a, b: (a + b) % 65536, enc))
        leaves, extras, _ = decode(c, w, dec)
        assert leaves == {k: (v[0], v[1]) for k, v in norm(mr, w).items()}, 'leaf refs after extra refs'
        assert all(x[1] == (rc.RC(u(x[0], 16)).hash if x[0] & 1 else None) for x in extras) and len(extras) == 2 * len(m) - 1
